#!/usr/bin/env python3
"""Prints the markdown table of DESIGN.md section 8.6 from /verif/seeded/*/meta.json (one row per kept seeded change)."""
import glob, json, os, re


def key(d):
    n = os.path.basename(d)
    m = re.match(r'(?:r(\d)_)?(C\d+)', n)
    return (int(m.group(1) or 1), m.group(2))


print('| id | round | property | what the change does | needs | repo suite with the change | caught by | first missed? |')
print('|---|---|---|---|---|---|---|---|')
for d in sorted(glob.glob('/verif/seeded/*'), key=key):
    m = json.load(open(os.path.join(d, 'meta.json')))
    rnd, prop = key(d)
    s = (m.get('summary') or '').replace('|', '/').replace('\n', ' ')
    nd = (m.get('needs_to_manifest') or '').replace('|', '/').replace('\n', ' ')
    c = m.get('confirmed_by_me', {})
    print(f"| {os.path.basename(d)} | {rnd} | {prop} | {s[:330]} | {nd[:260]} | {c.get('repo_tests_on_mutant', '')[:12]} | {', '.join(m.get('detected_by', []))} | {(m.get('initially_missed') or 'no')[:240]} |")
