---- MODULE BigRat ----
RAdd(a, b) == CHOOSE r : TRUE
RSub(a, b) == CHOOSE r : TRUE
RMul(a, b) == CHOOSE r : TRUE
RDiv(a, b) == CHOOSE r : TRUE
RLe(a, b) == CHOOSE r \in BOOLEAN : TRUE
RLt(a, b) == CHOOSE r \in BOOLEAN : TRUE
RAbs(a) == CHOOSE r : TRUE
RMax(a, b) == CHOOSE r : TRUE
RNorm(a) == CHOOSE r : TRUE
RSign(a) == CHOOSE r : TRUE
RNeg(a) == CHOOSE r : TRUE
====
