SPECIFICATION Spec
INVARIANT RerunEqNewSolver
CHECK_DEADLOCK FALSE
