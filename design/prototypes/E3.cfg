INIT Init
NEXT Next
CONSTRAINT Emit
CHECK_DEADLOCK FALSE
