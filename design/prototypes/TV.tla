---- MODULE TV ----
EXTENDS Integers, Sequences, TLC, Json, IOUtils, BigRat
Traces == ndJsonDeserialize(IOEnv.TRACE_FILE)
Eps == "1e-9"
Close(a, b) == RLe(RAbs(RSub(a, b)), RMul(Eps, RMax(RMax(RAbs(a), RAbs(b)), "1e-12")))
VARIABLES tid, k
vars == <<tid, k>>
Init == tid = 1 /\ k = 1
N(tr) == Len(tr.el)
Coupled(tr, inst) == \A i \in 1..(Len(inst.el) - 1) :
    /\ Close(inst.el[i].angular_position, RMul(tr.ratio[i], inst.el[i+1].angular_position))
    /\ Close(inst.el[i].angular_speed, RMul(tr.ratio[i], inst.el[i+1].angular_speed))
    /\ Close(inst.el[i].angular_acceleration, RMul(tr.ratio[i], inst.el[i+1].angular_acceleration))
    /\ Close(inst.el[i+1].driving_torque, RMul(RMul(tr.ratio[i], tr.eff[i]), inst.el[i].driving_torque))
    /\ Close(inst.el[i].load_torque, RDiv(RDiv(inst.el[i+1].load_torque, tr.eff[i]), tr.ratio[i]))
Net(inst) == \A i \in 1..Len(inst.el) : Close(inst.el[i].torque, RSub(inst.el[i].driving_torque, inst.el[i].load_torque))
Next == /\ tid \in 1..Len(Traces)
        /\ LET tr == Traces[tid] IN
            IF Coupled(tr, tr.inst[k]) /\ Net(tr.inst[k]) THEN
               IF k < Len(tr.inst) THEN k' = k + 1 /\ tid' = tid
               ELSE k' = 1 /\ tid' = tid + 1
            ELSE /\ PrintT(<<"REJECT", tr.tid, k, tr.inst[k]>>) /\ tid' = 0 /\ k' = k
Done == tid = Len(Traces) + 1
Post == TLCGet("stats").diameter >= 2
====
