SPECIFICATION Spec
INVARIANT RerunEqSameSolver
CHECK_DEADLOCK FALSE
