SPECIFICATION Spec
INVARIANT Coupled
INVARIANT PwmRange
INVARIANT LockSafe
INVARIANT NoClamp
INVARIANT Rect
CHECK_DEADLOCK FALSE
