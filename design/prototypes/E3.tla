---- MODULE E3 ----
EXTENDS Integers, Sequences, TLC, Json, BigRat
VARIABLES x, log
Init == x = "1/2" /\ log = <<>>
Step(c) == x' = RAdd(RMul(x, c), "1/3") /\ log' = Append(log, [action |-> "Step", arg |-> c, post |-> [x |-> x']])
Next == Len(log) < 3 /\ \E c \in {"2", "-1/3"} : Step(c)
Emit == IF Len(log) = 3 THEN PrintT("BEHAVIOUR " \o ToJson(log)) ELSE TRUE
View == x
====
