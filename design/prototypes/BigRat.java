package tlc2.module;

import java.math.BigInteger;
import tlc2.value.impl.BoolValue;
import tlc2.value.impl.IntValue;
import tlc2.value.impl.StringValue;
import tlc2.value.impl.Value;

public class BigRat {
    public static final long serialVersionUID = 20260926L;

    private static BigInteger[] parse(Value v) {
        String s;
        if (v instanceof StringValue) {
            s = ((StringValue) v).val.toString();
        } else if (v instanceof IntValue) {
            return new BigInteger[] { BigInteger.valueOf(((IntValue) v).val), BigInteger.ONE };
        } else {
            throw new RuntimeException("BigRat: not a rational: " + v);
        }
        int i = s.indexOf('/');
        if (i < 0) {
            if (s.indexOf('.') >= 0 || s.indexOf('e') >= 0 || s.indexOf('E') >= 0) {
                java.math.BigDecimal bd = new java.math.BigDecimal(s);
                BigInteger u = bd.unscaledValue(); int sc = bd.scale();
                if (sc >= 0) return new BigInteger[] { u, BigInteger.TEN.pow(sc) };
                return new BigInteger[] { u.multiply(BigInteger.TEN.pow(-sc)), BigInteger.ONE };
            }
            return new BigInteger[] { new BigInteger(s), BigInteger.ONE };
        }
        return new BigInteger[] { new BigInteger(s.substring(0, i)), new BigInteger(s.substring(i + 1)) };
    }
    private static Value mk(BigInteger n, BigInteger d) {
        if (d.signum() == 0) throw new RuntimeException("BigRat: division by zero");
        if (d.signum() < 0) { n = n.negate(); d = d.negate(); }
        BigInteger g = n.gcd(d);
        if (!g.equals(BigInteger.ONE) && g.signum() != 0) { n = n.divide(g); d = d.divide(g); }
        if (d.equals(BigInteger.ONE)) return new StringValue(n.toString());
        return new StringValue(n.toString() + "/" + d.toString());
    }
    public static Value RAdd(Value a, Value b) { BigInteger[] x = parse(a), y = parse(b); return mk(x[0].multiply(y[1]).add(y[0].multiply(x[1])), x[1].multiply(y[1])); }
    public static Value RSub(Value a, Value b) { BigInteger[] x = parse(a), y = parse(b); return mk(x[0].multiply(y[1]).subtract(y[0].multiply(x[1])), x[1].multiply(y[1])); }
    public static Value RMul(Value a, Value b) { BigInteger[] x = parse(a), y = parse(b); return mk(x[0].multiply(y[0]), x[1].multiply(y[1])); }
    public static Value RDiv(Value a, Value b) { BigInteger[] x = parse(a), y = parse(b); return mk(x[0].multiply(y[1]), x[1].multiply(y[0])); }
    public static Value RLe(Value a, Value b) { BigInteger[] x = parse(a), y = parse(b); return x[0].multiply(y[1]).compareTo(y[0].multiply(x[1])) <= 0 ? BoolValue.ValTrue : BoolValue.ValFalse; }
    public static Value RLt(Value a, Value b) { BigInteger[] x = parse(a), y = parse(b); return x[0].multiply(y[1]).compareTo(y[0].multiply(x[1])) < 0 ? BoolValue.ValTrue : BoolValue.ValFalse; }
    public static Value RAbs(Value a) { BigInteger[] x = parse(a); return mk(x[0].abs(), x[1]); }
    public static Value RMax(Value a, Value b) { BigInteger[] x = parse(a), y = parse(b); return x[0].multiply(y[1]).compareTo(y[0].multiply(x[1])) >= 0 ? mk(x[0],x[1]) : mk(y[0],y[1]); }
    public static Value RSign(Value a) { return IntValue.gen(parse(a)[0].signum()); }
    public static Value RNeg(Value a) { BigInteger[] x = parse(a); return mk(x[0].negate(), x[1]); }
    public static Value RNorm(Value a) { BigInteger[] x = parse(a); return mk(x[0], x[1]); }
}
