---- MODULE SolverProto ----
EXTENDS Integers, Sequences, TLC, BigRat

Null == "null"
\* ---------- instance families (small exact rationals) ----------
Chains == {
  << [J |-> "1"], [J |-> "2", ratio |-> "1", eff |-> "1", worm |-> FALSE] >>,
  << [J |-> "1"], [J |-> "1", ratio |-> "1", eff |-> "1", worm |-> FALSE], [J |-> "4", ratio |-> "2", eff |-> "1/2", worm |-> FALSE] >>,
  << [J |-> "1"], [J |-> "1", ratio |-> "1", eff |-> "1", worm |-> FALSE], [J |-> "3", ratio |-> "3", eff |-> "9/10", worm |-> FALSE], [J |-> "2", ratio |-> "1/2", eff |-> "1", worm |-> FALSE] >>,
  << [J |-> "1"], [J |-> "1", ratio |-> "1", eff |-> "1", worm |-> FALSE], [J |-> "8", ratio |-> "20", eff |-> "1/4", worm |-> TRUE] >>
}
Motor == [Tmax |-> "2", w0 |-> "16"]
Loads == { [c |-> "0", kw |-> "0"], [c |-> "1", kw |-> "0"], [c |-> "100", kw |-> "0"], [c |-> "-3", kw |-> "0"], [c |-> "1/2", kw |-> "1/8"] }
Ctrls == { <<>>, << [start |-> "0", dur |-> "1", val |-> "0"] >>, << [start |-> "1/2", dur |-> "1/2", val |-> "-1"] >>,
           << [start |-> "0", dur |-> "1/2", val |-> "1/2"], [start |-> "1/2", dur |-> "1", val |-> "0"] >> }
Dts == {"1/2", "1/4"}
MaxSteps == 3

VARIABLES inst, time, cur, hist, pwmAttr, tqAttr, locked, err, epoch, newSolverUsed
vars == <<inst, time, cur, hist, pwmAttr, tqAttr, locked, err, epoch, newSolverUsed>>

N == Len(inst.chain)
Zero == "0"
Load(t, th, w) == RAdd(inst.load.c, RMul(inst.load.kw, w))
MotorTorque(w, D) == RMul(inst.motor.Tmax, RSub("1", RDiv(w, inst.motor.w0)))   \* motor without current data
SelfLocking == \E i \in 2..N : inst.chain[i].worm

RECURSIVE Jeq(_)
Jeq(i) == IF i = 1 THEN inst.chain[1].J ELSE RAdd(RMul(Jeq(i-1), inst.chain[i].ratio), inst.chain[i].J)

\* back-propagation of a quantity from the last element
RECURSIVE Back(_, _)
Back(x, i) == IF i = N THEN x ELSE RMul(inst.chain[i+1].ratio, Back(x, i+1))
RECURSIVE LoadAt(_, _)
LoadAt(x, i) == IF i = N THEN x ELSE RDiv(RDiv(LoadAt(x, i+1), inst.chain[i+1].eff), inst.chain[i+1].ratio)
RECURSIVE DriveAt(_, _)
DriveAt(x, i) == IF i = 1 THEN x ELSE RMul(RMul(DriveAt(x, i-1), inst.chain[i].eff), inst.chain[i].ratio)

Active(r, t) == RLe(r.start, t) /\ RLe(RSub(t, r.start), r.dur)
Props(t) == { r.val : r \in { inst.ctrl[j] : j \in { j \in 1..Len(inst.ctrl) : Active(inst.ctrl[j], t) } } }
NActive(t) == Len(SelectSeq(inst.ctrl, LAMBDA r : Active(r, t)))

\* one full instant computation given advanced position/speed of last element, time t
Compute(t, posN, spdN, accPrev) ==
  LET spd0   == Back(spdN, 1)
      lockedNew == IF SelfLocking /\ ( RSign(pwmAttr) = 0 \/ (RSign(pwmAttr) > 0 /\ RSign(spd0) < 0) \/ (RSign(pwmAttr) < 0 /\ RSign(spd0) > 0) ) THEN TRUE
                   ELSE IF tqAttr # Null /\ ((RSign(tqAttr) > 0 /\ RSign(pwmAttr) > 0) \/ (RSign(tqAttr) < 0 /\ RSign(pwmAttr) < 0)) THEN FALSE
                   ELSE locked
      spdNc  == IF lockedNew THEN Zero ELSE spdN
      tlN    == Load(t, posN, spdNc)
      nact   == NActive(t)
      pwmNew == IF Len(inst.ctrl) = 0 THEN pwmAttr ELSE IF nact = 0 THEN "1" ELSE CHOOSE v \in Props(t) : TRUE
      td0    == MotorTorque(Back(spdNc, 1), pwmNew)
      tdN    == DriveAt(td0, N)
      tN     == RSub(tdN, tlN)
      accN   == IF lockedNew THEN Zero ELSE RDiv(tN, Jeq(N))
      el     == [i \in 1..N |-> [pos |-> Back(posN, i), spd |-> Back(spdNc, i), acc |-> Back(accN, i),
                                 Td |-> DriveAt(td0, i), Tl |-> LoadAt(tlN, i), T |-> RSub(DriveAt(td0, i), LoadAt(tlN, i))]]
  IN  [conflict |-> nact >= 2, locked |-> lockedNew, pwm |-> pwmNew, el |-> el]

Init == /\ inst \in [chain : Chains, motor : {Motor}, load : Loads, ctrl : Ctrls, dt : Dts, pos0 : {"0"}, spd0 : {"0", "-2"}]
        /\ time = <<>> /\ cur = Null /\ hist = <<>> /\ pwmAttr = "1" /\ tqAttr = Null /\ locked = FALSE /\ err = FALSE /\ epoch = <<>> /\ newSolverUsed = FALSE

Start == /\ time = <<>> /\ ~err
         /\ LET c == Compute("0", inst.pos0, inst.spd0, Null) IN
            IF c.conflict THEN err' = TRUE /\ time' = <<"0">> /\ UNCHANGED <<inst, cur, hist, pwmAttr, tqAttr, locked, epoch, newSolverUsed>>
            ELSE /\ time' = <<"0">> /\ cur' = c.el /\ hist' = << [pwm |-> c.pwm, el |-> c.el] >>
                 /\ pwmAttr' = c.pwm /\ tqAttr' = c.el[1].T /\ locked' = c.locked /\ UNCHANGED <<inst, err, epoch, newSolverUsed>>

Step == /\ time # <<>> /\ ~err /\ Len(time) <= MaxSteps
        /\ LET t  == RAdd(time[Len(time)], inst.dt)
               w  == RAdd(cur[N].spd, RMul(cur[N].acc, inst.dt))
               th == RAdd(cur[N].pos, RMul(w, inst.dt))
               c  == Compute(t, th, w, cur[N].acc) IN
            IF c.conflict THEN err' = TRUE /\ time' = Append(time, t) /\ UNCHANGED <<inst, cur, hist, pwmAttr, tqAttr, locked, epoch, newSolverUsed>>
            ELSE /\ time' = Append(time, t) /\ cur' = c.el /\ hist' = Append(hist, [pwm |-> c.pwm, el |-> c.el])
                 /\ pwmAttr' = c.pwm /\ tqAttr' = c.el[1].T /\ locked' = c.locked /\ UNCHANGED <<inst, err, epoch, newSolverUsed>>
Reset == /\ ~err /\ epoch = <<>> /\ Len(time) = MaxSteps + 1
         /\ epoch' = hist /\ time' = <<>> /\ hist' = <<>>
         /\ cur' = hist[1].el /\ pwmAttr' = hist[1].pwm /\ tqAttr' = hist[1].el[1].T
         /\ \E ns \in BOOLEAN : newSolverUsed' = ns /\ locked' = IF ns THEN FALSE ELSE locked
         /\ UNCHANGED <<inst, err>>
Next == Start \/ Step \/ Reset
Spec == Init /\ [][Next]_vars

\* ---------- properties ----------
Coupled == \A k \in (IF hist = <<>> THEN {} ELSE {Len(hist)}) : \A i \in 1..(N-1) :
   /\ hist[k].el[i].pos = RMul(inst.chain[i+1].ratio, hist[k].el[i+1].pos)
   /\ hist[k].el[i].spd = RMul(inst.chain[i+1].ratio, hist[k].el[i+1].spd)
   /\ hist[k].el[i].acc = RMul(inst.chain[i+1].ratio, hist[k].el[i+1].acc)
PwmRange == \A k \in (IF hist = <<>> THEN {} ELSE {Len(hist)}) : RLe("-1", hist[k].pwm) /\ RLe(hist[k].pwm, "1")
\* C13: recorded motor speed sign compatible with duty cycle in force (recorded at previous instant)
LockSafe == SelfLocking => \A k \in (IF Len(hist) < 2 THEN {} ELSE {Len(hist)}) :
   LET p == RSign(hist[k-1].pwm)  s == RSign(hist[k].el[1].spd) IN
   (p = 0 => s = 0) /\ (p > 0 => s >= 0) /\ (p < 0 => s <= 0)
NoClamp == ~SelfLocking => ~locked
Rect == ~err => Len(hist) = Len(time)
RerunEqSameSolver == (epoch # <<>> /\ ~newSolverUsed) => \A k \in 1..Len(hist) : hist[k] = epoch[k]
RerunEqNewSolver  == (epoch # <<>> /\ newSolverUsed) => \A k \in 1..Len(hist) : hist[k] = epoch[k]
====
