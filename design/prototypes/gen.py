import warnings, json, sys, random
warnings.filterwarnings('ignore')
from gearpy.mechanical_objects import DCMotor, SpurGear, Flywheel
from gearpy.units import *
from gearpy.utils import add_gear_mating, add_fixed_joint
from gearpy.powertrain import Powertrain
from gearpy.solver import Solver
SI = {'angular position':'rad','angular speed':'rad/s','angular acceleration':'rad/s^2','torque':'Nm','driving torque':'Nm','load torque':'Nm'}
def one(seed, nsteps=50):
    rnd = random.Random(seed)
    motor = DCMotor(name='motor', no_load_speed=AngularSpeed(rnd.uniform(500,5000),'rpm'), maximum_torque=Torque(rnd.uniform(1,50),'mNm'), inertia_moment=InertiaMoment(rnd.uniform(1,10),'gcm^2'))
    els=[motor]; prev=motor
    n = rnd.randint(2,6)
    for i in range(n):
        g = SpurGear(name=f'g{i}', n_teeth=rnd.randint(10,60), inertia_moment=InertiaMoment(rnd.uniform(1,1000),'gcm^2'))
        if isinstance(prev, SpurGear) and rnd.random()<0.6: add_gear_mating(prev,g,rnd.uniform(0.5,1))
        else: add_fixed_joint(prev,g)
        els.append(g); prev=g
    c = rnd.uniform(0,20)
    prev.external_torque = lambda time, angular_position, angular_speed: Torque(c + 0.01*angular_speed.to('rad/s').value,'mNm')
    pt = Powertrain(motor)
    prev.angular_position = AngularPosition(0,'rad'); prev.angular_speed = AngularSpeed(0,'rad/s')
    Solver(pt).run(TimeInterval(0.01,'sec'), TimeInterval(0.01*nsteps,'sec'))
    rec = {'tid': seed, 'ratio': [repr(float(e.master_gear_ratio)) for e in pt.elements[1:]], 'eff':[repr(float(e.master_gear_efficiency)) for e in pt.elements[1:]],
           'inst': []}
    for k in range(len(pt.time)):
        rec['inst'].append({'t': repr(pt.time[k].to('sec').value), 'el': [ {v.replace(' ','_'): repr(float(e.time_variables[v][k].to(u).value)) for v,u in SI.items()} for e in pt.elements]})
    return rec
N = int(sys.argv[1])
with open('traces.ndjson','w') as f:
    for s in range(N): f.write(json.dumps(one(s))+'\n')
