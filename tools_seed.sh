#!/bin/sh
# usage: tools_seed.sh <seed-dir-with-patch.diff-demo.py-meta.json> <name> "<checks to run>" [notests]
# Confirms a seeded change in a fresh scratch worktree (outside /repo and /verif), runs checks against it via VERIF_REPO,
# removes the worktree.  Prints a summary; leaves logs in /tmp/sv-logs/<name>/.
SRC=$1; NAME=$2; CHECKS=$3; NOTESTS=$4
WT=/tmp/sv/$NAME
LOG=/tmp/sv-logs/$NAME
mkdir -p /tmp/sv $LOG
git -C /repo worktree remove --force $WT 2>/dev/null
git -C /repo worktree add -q $WT HEAD || exit 2
cp $SRC/demo.py $WT/demo.py
cd $WT
/venv/bin/python demo.py > $LOG/demo-clean.log 2>&1; echo "demo on clean tree: exit=$?"
git apply $SRC/patch.diff || { echo "PATCH DOES NOT APPLY"; exit 2; }
git diff --stat | tail -1
/venv/bin/python demo.py > $LOG/demo-mutant.log 2>&1; echo "demo on mutant: exit=$?"
if [ -z "$NOTESTS" ]; then
  /venv/bin/python -m pytest -q -p no:cacheprovider tests -n 8 --dist loadfile -W ignore > $LOG/tests.log 2>&1
  echo "repo tests on mutant: $(grep -a 'passed\|failed' $LOG/tests.log | tail -1)"
fi
cd /verif
for c in $CHECKS; do
  VERIF_EVIDENCE_DIR=$LOG/evidence VERIF_REPO=$WT ./check $c --tier quick > $LOG/check-$c.log 2>&1
  echo "check $c on mutant: exit=$? $(grep -c 'violation:' $LOG/check-$c.log) shown"
done
git -C /repo worktree remove --force $WT
