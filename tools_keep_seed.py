#!/usr/bin/env python3
"""Keeps a confirmed seeded change under /verif/seeded/<name>/ (patch.diff, demo.py, meta.json).
usage: tools_keep_seed.py <seed-out-dir> <name> <batch-log-file>   (parses the tools_seed.sh output block '=== <name>')"""
import json, os, re, shutil, sys
src, name, log = sys.argv[1:4]
txt = open(log).read()
m = re.search(r'=== ' + re.escape(name) + r'\n(.*?)(?:\n=== |\Z)', txt, re.S)
block = m.group(1) if m else ''
agent = json.load(open(os.path.join(src, 'meta.json')))
conf = {
    'demo_exit_on_clean_tree': int(re.search(r'demo on clean tree: exit=(\d+)', block).group(1)) if 'demo on clean' in block else None,
    'demo_exit_on_mutant': int(re.search(r'demo on mutant: exit=(\d+)', block).group(1)) if 'demo on mutant' in block else None,
    'repo_tests_on_mutant': (re.search(r'repo tests on mutant: (.*)', block).group(1).strip() if 'repo tests' in block else ''),
    'checks_on_mutant': {c: int(e) for c, e in re.findall(r'check (C\d+) on mutant: exit=(\d+)', block)},
}
dst = os.path.join('/verif/seeded', name)
os.makedirs(dst, exist_ok=True)
shutil.copy(os.path.join(src, 'patch.diff'), os.path.join(dst, 'patch.diff'))
shutil.copy(os.path.join(src, 'demo.py'), os.path.join(dst, 'demo.py'))
meta = {'property': agent.get('property'), 'summary': agent.get('summary'), 'needs_to_manifest': agent.get('needs'),
        'origin': 'written by an independent sub-agent that saw only the property text and its own scratch worktree',
        'agent_tests_run': agent.get('tests_run'),
        'confirmed_by_me': conf,
        'what_i_ran': 'tools_seed.sh: fresh scratch worktree of /repo HEAD under /tmp/sv; demo.py on the clean tree (exit 0) and with patch.diff applied (exit 1); '
                      'full repository suite on the mutant (pytest -n 8 --dist loadfile); ./check <property> --tier quick with VERIF_REPO pointing at the mutant worktree; worktree removed',
        'detected_by': sorted(c for c, e in conf['checks_on_mutant'].items() if e == 1)}
json.dump(meta, open(os.path.join(dst, 'meta.json'), 'w'), indent=1)
print(name, conf)
