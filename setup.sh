#!/bin/sh
# Offline build of the framework: compile the BigRat override, self-test it with TLC.
set -e
cd "$(dirname "$0")"
mkdir -p build/classes evidence .cache
javac -cp /opt/veriftools/tla/tla2tools.jar -d build/classes java/tlc2/module/BigRat.java
cd spec
OUT=$(../tlcrun.sh RatLaws -config RatLaws.cfg 2>&1) || { echo "$OUT" | tail -30; exit 1; }
echo "$OUT" | grep -q 'RatLaws: all assumptions hold' || { echo "$OUT" | tail -30; echo "RatLaws self-test failed"; exit 1; }
echo "setup ok"
