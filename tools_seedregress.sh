#!/bin/sh
# usage: tools_seedregress.sh [name-pattern]  -> re-runs every kept seeded change (seeded/<name>/) against its property's quick check
# in a scratch worktree (no repository tests); prints one line per change; exit 1 if a kept change is no longer detected.
cd /verif
bad=0
for d in /verif/seeded/${1:-*}; do
  n=$(basename $d)
  p=$(/venv/bin/python -c "import json;print(json.load(open('$d/meta.json'))['property'])")
  out=$(./tools_seed.sh $d rg_$n "$p" notests 2>&1 | grep "check $p on mutant")
  echo "$n: $out"
  case "$out" in *"exit=1"*) ;; *) bad=1;; esac
done
exit $bad
