#!/bin/sh
# usage: tools_seedsweep.sh "<seeds>" [tier]   -> runs every check for each seed, prints exit codes
cd /verif
for s in $1; do
  for p in C01 C02 C03 C04 C05 C06 C07 C08 C09 C10 C11 C12 C13 C14 C15 C16 C17 C18 C19 C20; do
    VERIF_SEED=$s ./check $p --tier ${2:-quick} > /tmp/sweep-$s-$p.log 2>&1
    echo "seed=$s $p exit=$? $(grep -c '^KNOWN-FINDING' /tmp/sweep-$s-$p.log) known"
  done
done
