package tlc2.module;

import java.math.BigDecimal;
import java.math.BigInteger;
import tlc2.value.impl.BoolValue;
import tlc2.value.impl.IntValue;
import tlc2.value.impl.StringValue;
import tlc2.value.impl.Value;

/**
 * Exact rational arithmetic for TLC (module override of spec/BigRat.tla).
 * A rational is a TLA+ string "n/d", "n", or a decimal / scientific literal
 * ("0.1", "-3.5e-7"), or a TLC integer.  Results are canonical: lowest terms,
 * positive denominator, "n" for integers, "0" for zero.
 */
public class BigRat {
    public static final long serialVersionUID = 20260926L;

    private static BigInteger[] parseStr(String s) {
        int i = s.indexOf('/');
        if (i < 0) {
            if (s.indexOf('.') >= 0 || s.indexOf('e') >= 0 || s.indexOf('E') >= 0) {
                BigDecimal bd = new BigDecimal(s);
                BigInteger u = bd.unscaledValue();
                int sc = bd.scale();
                if (sc >= 0) return new BigInteger[] { u, BigInteger.TEN.pow(sc) };
                return new BigInteger[] { u.multiply(BigInteger.TEN.pow(-sc)), BigInteger.ONE };
            }
            return new BigInteger[] { new BigInteger(s), BigInteger.ONE };
        }
        return new BigInteger[] { new BigInteger(s.substring(0, i)), new BigInteger(s.substring(i + 1)) };
    }

    private static BigInteger[] parse(Value v) {
        if (v instanceof StringValue) {
            String s = ((StringValue) v).val.toString();
            try {
                return parseStr(s);
            } catch (NumberFormatException e) {
                throw new RuntimeException("BigRat: not a rational: \"" + s + "\"");
            }
        } else if (v instanceof IntValue) {
            return new BigInteger[] { BigInteger.valueOf(((IntValue) v).val), BigInteger.ONE };
        }
        throw new RuntimeException("BigRat: not a rational: " + v);
    }

    private static Value mk(BigInteger n, BigInteger d) {
        if (d.signum() == 0) throw new RuntimeException("BigRat: division by zero");
        if (d.signum() < 0) { n = n.negate(); d = d.negate(); }
        BigInteger g = n.gcd(d);
        if (g.signum() != 0 && !g.equals(BigInteger.ONE)) { n = n.divide(g); d = d.divide(g); }
        if (d.equals(BigInteger.ONE)) return new StringValue(n.toString());
        return new StringValue(n.toString() + "/" + d.toString());
    }

    private static int cmp(BigInteger[] x, BigInteger[] y) {
        // denominators may be negative in un-normalised input "n/-d": normalise sign
        BigInteger xn = x[0], xd = x[1], yn = y[0], yd = y[1];
        if (xd.signum() < 0) { xn = xn.negate(); xd = xd.negate(); }
        if (yd.signum() < 0) { yn = yn.negate(); yd = yd.negate(); }
        return xn.multiply(yd).compareTo(yn.multiply(xd));
    }

    private static Value b(boolean v) { return v ? BoolValue.ValTrue : BoolValue.ValFalse; }

    public static Value RAdd(Value a, Value b) { BigInteger[] x = parse(a), y = parse(b); return mk(x[0].multiply(y[1]).add(y[0].multiply(x[1])), x[1].multiply(y[1])); }
    public static Value RSub(Value a, Value b) { BigInteger[] x = parse(a), y = parse(b); return mk(x[0].multiply(y[1]).subtract(y[0].multiply(x[1])), x[1].multiply(y[1])); }
    public static Value RMul(Value a, Value b) { BigInteger[] x = parse(a), y = parse(b); return mk(x[0].multiply(y[0]), x[1].multiply(y[1])); }
    public static Value RDiv(Value a, Value b) { BigInteger[] x = parse(a), y = parse(b); return mk(x[0].multiply(y[1]), x[1].multiply(y[0])); }
    public static Value RNeg(Value a) { BigInteger[] x = parse(a); return mk(x[0].negate(), x[1]); }
    public static Value RAbs(Value a) { BigInteger[] x = parse(a); return mk(x[0].abs(), x[1].abs()); }
    public static Value RNorm(Value a) { BigInteger[] x = parse(a); return mk(x[0], x[1]); }
    public static Value RMax(Value a, Value b) { BigInteger[] x = parse(a), y = parse(b); return cmp(x, y) >= 0 ? mk(x[0], x[1]) : mk(y[0], y[1]); }
    public static Value RMin(Value a, Value b) { BigInteger[] x = parse(a), y = parse(b); return cmp(x, y) <= 0 ? mk(x[0], x[1]) : mk(y[0], y[1]); }
    public static Value RLe(Value a, Value b) { return b(cmp(parse(a), parse(b)) <= 0); }
    public static Value RLt(Value a, Value b) { return b(cmp(parse(a), parse(b)) < 0); }
    public static Value REq(Value a, Value b) { return b(cmp(parse(a), parse(b)) == 0); }
    public static Value RCmp(Value a, Value b) { return IntValue.gen(Integer.signum(cmp(parse(a), parse(b)))); }
    public static Value RSign(Value a) { BigInteger[] x = parse(a); return IntValue.gen(x[0].signum() * x[1].signum()); }

    /** floor(a) as a canonical integer string */
    public static Value RFloor(Value a) {
        BigInteger[] x = parse(a);
        BigInteger n = x[0], d = x[1];
        if (d.signum() < 0) { n = n.negate(); d = d.negate(); }
        BigInteger[] qr = n.divideAndRemainder(d);
        BigInteger q = qr[0];
        if (qr[1].signum() < 0) q = q.subtract(BigInteger.ONE);
        return new StringValue(q.toString());
    }

    /** nearest integer, halves away from zero (what Python's round() does NOT do; used only off ties) */
    public static Value RRound(Value a) {
        BigInteger[] x = parse(a);
        BigInteger n = x[0], d = x[1];
        if (d.signum() < 0) { n = n.negate(); d = d.negate(); }
        BigInteger two = BigInteger.TWO;
        BigInteger num = n.multiply(two).add(d);
        BigInteger den = d.multiply(two);
        BigInteger[] qr = num.divideAndRemainder(den);
        BigInteger q = qr[0];
        if (qr[1].signum() < 0) q = q.subtract(BigInteger.ONE);
        return new StringValue(q.toString());
    }

    /** a rounded to d decimal places (nearest; d is a TLC int >= 0): a rational with denominator 10^d */
    public static Value RRoundDec(Value a, Value d) {
        BigInteger[] x = parse(a);
        int k = ((IntValue) d).val;
        BigInteger sc = BigInteger.TEN.pow(k);
        BigInteger n = x[0], den = x[1];
        if (den.signum() < 0) { n = n.negate(); den = den.negate(); }
        BigInteger num = n.multiply(sc).multiply(BigInteger.TWO).add(den);
        BigInteger dd = den.multiply(BigInteger.TWO);
        BigInteger[] qr = num.divideAndRemainder(dd);
        BigInteger q = qr[0];
        if (qr[1].signum() < 0) q = q.subtract(BigInteger.ONE);
        return mk(q, sc);
    }

    /** e^{-x} for a rational x >= 0, rounded to d decimal places (Taylor series in BigDecimal with guard digits;
     *  cross-checked in RatLaws against the pure TLA+ partial sums of Closed!ExpSum) */
    public static Value RExpNeg(Value a, Value d) {
        BigInteger[] x = parse(a);
        int k = ((IntValue) d).val;
        if (x[0].signum() * x[1].signum() < 0) throw new RuntimeException("BigRat: RExpNeg of a negative number");
        java.math.MathContext mc = new java.math.MathContext(k + 30);
        BigDecimal xv = new BigDecimal(x[0]).divide(new BigDecimal(x[1]), mc);
        // e^{-x} = 1 / e^{x}; e^{x} by argument reduction x = 2^m * y, y < 1/2
        int m = 0;
        BigDecimal y = xv;
        BigDecimal half = new BigDecimal("0.5");
        while (y.compareTo(half) > 0) { y = y.divide(BigDecimal.valueOf(2), mc); m++; }
        BigDecimal term = BigDecimal.ONE, sum = BigDecimal.ONE;
        BigDecimal eps = BigDecimal.ONE.movePointLeft(k + 25);
        for (int i = 1; i < 10000; i++) {
            term = term.multiply(y, mc).divide(BigDecimal.valueOf(i), mc);
            sum = sum.add(term, mc);
            if (term.abs().compareTo(eps) < 0) break;
        }
        for (int i = 0; i < m; i++) sum = sum.multiply(sum, mc);
        BigDecimal r = BigDecimal.ONE.divide(sum, mc).setScale(k, java.math.RoundingMode.HALF_EVEN);
        return mk(r.unscaledValue(), BigInteger.TEN.pow(k));
    }

    /** a^n for an integer n (TLC int, may be negative) */
    public static Value RPow(Value a, Value n) {
        BigInteger[] x = parse(a);
        int k = ((IntValue) n).val;
        if (k >= 0) return mk(x[0].pow(k), x[1].pow(k));
        return mk(x[1].pow(-k), x[0].pow(-k));
    }

    /** TLC integer value of an integral rational that fits in 32 bits */
    public static Value RToInt(Value a) {
        BigInteger[] x = parse(a);
        BigInteger[] qr = x[0].divideAndRemainder(x[1]);
        if (qr[1].signum() != 0) throw new RuntimeException("BigRat: RToInt of a non-integer");
        return IntValue.gen(qr[0].intValueExact());
    }

    /** rational from a TLC integer */
    public static Value RFromInt(Value a) { return new StringValue(Integer.toString(((IntValue) a).val)); }

    /** TRUE iff the argument denotes a finite rational (FALSE for "nan", "inf", "-inf", garbage) */
    public static Value RIsNum(Value a) {
        if (a instanceof IntValue) return BoolValue.ValTrue;
        if (!(a instanceof StringValue)) return BoolValue.ValFalse;
        try {
            BigInteger[] x = parseStr(((StringValue) a).val.toString());
            return b(x[1].signum() != 0);
        } catch (RuntimeException e) {
            return BoolValue.ValFalse;
        }
    }

    /** decimal rendering with the given number of significant digits (for messages only) */
    public static Value RShow(Value a, Value digits) {
        BigInteger[] x = parse(a);
        int k = ((IntValue) digits).val;
        BigDecimal q = new BigDecimal(x[0]).divide(new BigDecimal(x[1]), new java.math.MathContext(k));
        return new StringValue(q.toString());
    }
}
