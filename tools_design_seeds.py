#!/usr/bin/env python3
"""Rewrites the table of kept seeded changes in DESIGN.md section 8.6 from /verif/seeded/*/meta.json (between the markers)."""
import glob, json, os, re
BEGIN, END = '<!-- seeded-table-begin -->', '<!-- seeded-table-end -->'


def key(d):
    m = re.match(r'(?:r(\d)_)?(C\d+)', os.path.basename(d))
    return (int(m.group(1) or 1), m.group(2))


rows = ['| id | property | what the change does (full text, trigger and confirmation in `seeded/<id>/meta.json`) | caught by | first missed? |', '|---|---|---|---|---|']
n = missed = undetected = 0
for d in sorted(glob.glob('/verif/seeded/*'), key=key):
    m = json.load(open(os.path.join(d, 'meta.json')))
    s = (m.get('summary') or '').replace('|', '/').replace('\n', ' ')
    det = ', '.join(m.get('detected_by', [])) or 'NOT detected (by design, see below)'
    fm = 'yes' if m.get('initially_missed') else 'no'
    n += 1
    missed += fm == 'yes'
    undetected += not m.get('detected_by')
    rows.append(f"| {os.path.basename(d)} | {m.get('property')} | {s[:230]}{'...' if len(s) > 230 else ''} | {det} | {fm} |")
txt = (f'{n} seeded changes are kept ({missed} of them were first missed and led to the strengthening listed in the second table; '
       f'{undetected} not detected by design).\n\n' + '\n'.join(rows))
p = '/verif/DESIGN.md'
s = open(p).read()
i, j = s.index(BEGIN), s.index(END)
s = s[:i + len(BEGIN)] + '\n' + txt + '\n' + s[j:]
open(p, 'w').write(s)
print(n, missed, undetected)
