"""C04 driver: linear instances simulated by the real solver at k*dt in {0.2, 0.1, 0.05, 0.025} vs the closed form (Closed.tla)."""
from __future__ import annotations
import os, random
from concurrent.futures import ProcessPoolExecutor
from fractions import Fraction
from . import solver_gen, solver_rec
from .core import import_repo, rstr, Verdict, finish, Machinery, run_tlc, require_ok, frac
from .tv import validate

F = Fraction
HS = [F(1, 5), F(1, 10), F(1, 20), F(1, 40)]


def _one(args):
    seed, i, nruns = args
    import_repo()
    rnd = random.Random(seed * 15485863 + i)
    for attempt in range(3000):
        n_el = rnd.randint(2, 7) if i % 6 not in (1, 2, 5) else rnd.randint(4, 7)
        elems = solver_gen.random_chain(rnd, n_el, want_selflock=False, stress=False)
        rev = any(e['kind'] == 'WormGear' and e['rel']['type'] == 'worm' for e in elems[1:])      # a wheel that drives a worm
        fwd = any(e['kind'] == 'WormWheel' and e['rel']['type'] == 'worm' for e in elems[1:])     # a worm that drives a wheel
        if i % 6 == 5 and not rev or i % 6 == 2 and not fwd:
            continue                                    # a fixed share of the instances has a worm stage of either orientation
        idler = any(e['rel']['type'] == 'gear' and e['teeth'] == elems[j - 1]['teeth'] and e['rel']['arg'] != 1 for j, e in enumerate(elems) if j >= 1)
        if i % 6 == 1 and not idler:
            continue                                    # ... and another share a lossy mating whose ratio is exactly 1 (equal teeth)
        if i % 6 not in (2, 5) and any(e['kind'] in ('WormGear',) for e in elems[1:]) and rnd.random() < 0.7:
            continue                                    # the rest: mostly gear trains; worm stages only when not self-locking
        m = elems[0]
        # an efficiency sweep on a live model: in a third of the cases one gear mating is re-declared with another efficiency AFTER the
        # Solver exists and before it runs (the closed form is that of the chain as declared at run time)
        geared = [j for j in range(1, len(elems)) if elems[j]['rel']['type'] == 'gear']
        redecl = None
        if geared and i % 3 == 0:
            j = rnd.choice(geared)
            redecl = {'op': 'redeclare', 'i': j, 'arg': solver_gen.sig(rnd.uniform(0.4, 1))}
            first_eta = elems[j]['rel']['arg']
            elems[j]['rel'] = dict(elems[j]['rel'], arg=redecl['arg'])       # k below is computed for the final declaration
        if m['i0'] is not None and m['imax'] is not None:
            dz = float(m['i0']) / float(m['imax'])
            D = rnd.choice([F(1), F(1), solver_gen.sig(rnd.uniform(dz * 1.5 + 0.05, 1), 3), -solver_gen.sig(rnd.uniform(dz * 1.5 + 0.05, 1), 3)])
        else:
            D = F(1)
        stall = solver_gen.stall_at_output(elems)
        L = solver_gen.sig(stall * rnd.choice([0, 0.3, 0.8, 1.7, 4, -0.6]) * rnd.uniform(0.7, 1.3)) if rnd.random() < 0.85 else F(0)
        # rate constant of the abstract instance (the trace spec recomputes it from what the objects hold)
        rp = solver_gen.ratio_prod(elems)
        ep = F(solver_gen.eff_prod(elems))
        if m['i0'] is not None and m['imax'] is not None:
            tmaxd = m['Tmax'] * ((D * m['imax'] - m['i0']) if D > 0 else (D * m['imax'] + m['i0'])) / (m['imax'] - m['i0'])
            w0d = D * m['w0']
        else:
            tmaxd, w0d = m['Tmax'], m['w0']
        jeq = F(m['J'])
        for j in range(1, len(elems)):
            e, p = elems[j], elems[j - 1]
            r = F(e['teeth'], p['teeth']) if e['rel']['type'] in ('gear', 'worm') else F(1)
            jeq = jeq * r + F(e['J'])
        B = tmaxd * ep * rp * rp / w0d
        if B <= 0:
            continue
        k = B / jeq
        winf = (tmaxd * ep * rp - L) / B
        w0 = rnd.choice([F(0), F(0), solver_gen.sig(float(winf) * rnd.uniform(-1.5, 2.5)) if winf != 0 else F(1)])
        units = rnd if i % 2 else None
        runs = []
        ok = True
        tr0 = None
        for h in HS[:nruns]:
            dt = F(float(h / k))
            n = int(4 / h)
            import copy
            el2 = copy.deepcopy(elems)
            if redecl is not None:
                el2[redecl['i']]['rel']['arg'] = first_eta                     # built with the first efficiency ...
            inst = {'elems': el2, 'load': {'c0': L, 'c1': F(0), 'c2': F(0), 'c3': F(0), 'ts': F(10**9), 'cs': F(0)}, 'ctrls': [], 'stops': [],
                    'ops': [{'op': 'set_initial', 'pos': F(0), 'spd': w0}, {'op': 'set_pwm', 'v': D}, {'op': 'new_solver', 'sid': 1}] +
                           ([dict(redecl)] if redecl is not None else []) +                # ... re-declared once the Solver exists
                           [{'op': 'run', 'sid': 1, 'dt': dt, 'T': dt * n, 'dt_unit': 'sec' if units is None else rnd.choice(solver_gen.TIME_UNITS),
                             'T_unit': 'sec' if units is None else rnd.choice(solver_gen.TIME_UNITS)}]}
            try:
                tr = solver_rec.execute(f'c{i}h{h.denominator}', inst, None if units is None else random.Random(seed + i))
            except ValueError:
                ok = False
                break
            r = tr['ops'][-1]
            if r.get('outcome') != 'ok' or tr['selfLocking']:
                ok = False
                break
            ep0 = tr['epochs'][0]
            runs.append({'dt': r['dt'], 'time': ep0['time'], 'spd': ep0['hist'][-1]['angular_speed'], 'pos': ep0['hist'][-1]['angular_position']})
            tr0 = tr0 or tr
        if not ok:
            continue
        init = next(o for o in tr0['ops'] if o['op'] == 'set_initial')
        return {'id': f'c{i}', 'elems': tr0['elems'], 'D': rstr(D), 'L': tr0['load']['c0'], 'w0': init['spd'], 'runs': runs,
                'presentation': 'units' if units else 'SI'}
    raise Machinery('no linear instance')


def run_C04(tier, seed):
    v = Verdict('C04', tier, seed)
    r = run_tlc('MC_Closed', 'MC_Closed.cfg', workers='auto', timeout=3000)
    require_ok(r, 'MC_Closed')
    v.add_tlc(r, 'MC_Closed: the solver scheme vs the closed form in exact arithmetic, 3 chains x 3 duty cycles x 4 loads x 3 initial speeds x 3 step sizes, '
                 'every instant (invariants BoundDt, BoundHalfDt) and the halving ratio at the final time (Halving)')
    if r.violated:
        v.violation({'clauses': ['SpecInvariant_' + r.violated], 'cex': r.cex[:40]})
    n = 24 if tier == 'quick' else 600
    nruns = 4
    with ProcessPoolExecutor(max_workers=min(16, os.cpu_count() or 4)) as ex:
        evs = list(ex.map(_one, [(seed, i, nruns) for i in range(n)], chunksize=1))
    res = validate('Trace_Closed', evs, shards=16, workers_per_shard=1)
    v.states += res.states; v.transitions += res.transitions
    v.traces = len(evs) * nruns
    v.evaluations = len(evs) * nruns
    v.distinct = len(evs)
    byid = {e['id']: e for e in evs}
    for tid, fails in res.fails.items():
        if fails:
            e = byid[tid]
            v.violation({'clauses': fails, 'event': {'id': tid, 'elems': [{k: x[k] for k in ('kind', 'teeth', 'rtype', 'arg', 'J')} for x in e['elems']],
                                                     'D': e['D'], 'L': e['L'], 'w0': e['w0'], 'dts': [r['dt'] for r in e['runs']]}})
    v.rule = ('linear instances: seeded random chains of 2..7 elements (ratios, efficiencies, inertias; not self-locking), motors with and without current data, constant duty cycle of either sign '
              'outside the dead zone, constant load below / above stall / negative / zero, initial speed 0 or a multiple of the regime speed of either sign; each simulated by the real solver with '
              'k*dt = 0.2, 0.1, 0.05, 0.025 over 4 time constants; TLC evaluates the bound at every instant and the halving ratio at the common final time; half of them with inputs in random units')
    v.sample({'id': evs[0]['id'], 'D': evs[0]['D'], 'L': evs[0]['L'], 'w0': evs[0]['w0'], 'instants': [len(r['time']) for r in evs[0]['runs']]})
    v.assumptions = ['e^{-x} by its degree-40 Taylor polynomial (remainder < 1e-16 for x <= 6)',
                     'C = k|w0-winf|/2 for speed and 3|w0-winf|/2 for position (derived in DESIGN.md for the speed-then-position scheme with k dt <= 0.2); TLC checks the enumerated step sizes, not the limit dt -> 0',
                     'halving ratio accepted in [1.6, 2.6]; not judged when the error is below 1e-6 of the speed scale']
    return finish(v, {})
