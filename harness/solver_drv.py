"""Shared solver campaign: seeded random instances and schedules executed on the real code, recorded, and
validated instant by instant by Trace_Solver.tla.  One campaign serves C01-C03, C11, C13-C17 (each failing clause
is attributed to the property that states it), cached per (gearpy sources, specification, tier, seed)."""
from __future__ import annotations
import fcntl, glob, hashlib, json, os, random, time
from . import solver_rec, solver_gen
from .core import VERIF, SPEC, repo_hash, Verdict, finish, Machinery, import_repo, mc_cached, add_mc
from .tv import validate

PREFIX = {
    'C01': ('Coupled',),
    'C02': ('Drive', 'Load', 'NetTorque'),
    'C03': ('Acc', 'Integrate', 'Initial'),
    'C11': ('Grid',),
    'C13': ('Lock', 'Clamp', 'Held'),
    'C14': ('Arb', 'Pwm'),
    'C15': ('Rule',),
    'C16': ('Stop',),
    'C17': ('Rect', 'Live', 'Reset'),
    'C09': ('Force', 'Bending', 'Contact'),
    'C08': ('MotorCurrent',),
}
OTHER = ('NonFiniteSample', 'RunOutcome')


def prop_of(clause):
    for p, pre in PREFIX.items():
        if clause.startswith(pre):
            return p
    return 'misc'


def spec_hash():
    h = hashlib.sha256()
    for f in sorted(glob.glob(os.path.join(SPEC, '*.tla')) + glob.glob(os.path.join(VERIF, 'harness', '*.py')) + glob.glob(os.path.join(VERIF, 'java', 'tlc2', 'module', '*.java'))):
        h.update(open(f, 'rb').read())
    return h.hexdigest()[:16]


FAMILIES = ['plain', 'lock', 'control', 'stop', 'mixed']


def _one_trace(args):
    seed, i = args
    import_repo()
    rnd = random.Random(seed * 1000003 + i)
    fam = FAMILIES[i % len(FAMILIES)]
    for attempt in range(20):
        inst = solver_gen.random_instance(rnd, fam)
        try:
            tr = solver_rec.execute(f'{fam}{i}', inst, rnd if i % 2 else None)
            break
        except ValueError:
            # instance not constructible (e.g. worm efficiency out of range after rounding): draw another
            continue
    else:
        raise Machinery('could not generate a constructible instance')
    tr['family'] = fam
    tr['presentation'] = 'units' if i % 2 else 'SI'
    return tr


def gen_traces(tier, seed):
    from concurrent.futures import ProcessPoolExecutor
    n = 260 if tier == 'quick' else 4000
    with ProcessPoolExecutor(max_workers=min(16, os.cpu_count() or 4)) as ex:
        return list(ex.map(_one_trace, [(seed, i) for i in range(n)], chunksize=4))


def campaign(tier, seed):
    """-> dict with per-trace failing clauses, stats and a few sample traces (cached)."""
    key = f'solver-{repo_hash()}-{spec_hash()}-{tier}-{seed}'
    cdir = os.path.join(VERIF, '.cache')
    os.makedirs(cdir, exist_ok=True)
    cp = os.path.join(cdir, key + '.json')
    with open(os.path.join(cdir, key + '.lock'), 'w') as lf:
        fcntl.flock(lf, fcntl.LOCK_EX)
        if os.path.exists(cp):
            return json.load(open(cp))
        t0 = time.time()
        traces = gen_traces(tier, seed)
        t1 = time.time()
        res = validate('Trace_Solver', traces, workers_per_shard=1, shards=16, dfs_queue=True, timeout=7200)
        out = {'fails': res.fails, 'notes': res.notes, 'states': res.states, 'transitions': res.transitions,
               'n_traces': len(traces), 'gen_s': round(t1 - t0, 1), 'tlc_s': round(time.time() - t1, 1),
               'instants': sum(len(e['time']) for t in traces for e in t['epochs']),
               'elements_hist': {}, 'families': {}, 'meta': {}, 'samples': []}
        for t in traces:
            out['families'][t['family']] = out['families'].get(t['family'], 0) + 1
            n_el = len(t['elems'])
            out['elements_hist'][str(n_el)] = out['elements_hist'].get(str(n_el), 0) + 1
            out['meta'][t['id']] = {'elems': [e['kind'] for e in t['elems']], 'selfLocking': t['selfLocking'], 'presentation': t['presentation'],
                                    'ops': [{k: o[k] for k in o if k in ('op', 'sid', 'dt', 'T', 'dt_unit', 'T_unit', 'ctrl', 'stop', 'outcome', 'first', 'last')} for o in t['ops']]}
        # keep the full trace of every failing one (for replay files) and two passing samples
        out['failing_traces'] = {t['id']: t for t in traces if res.fails.get(t['id'])}
        keep = [t for t in traces if not res.fails.get(t['id'])][:2]
        out['samples'] = [{'id': t['id'], 'elems': [{k: e[k] for k in ('kind', 'teeth', 'rtype', 'arg', 'role')} for e in t['elems']],
                           'ops': out['meta'][t['id']]['ops'], 'time': t['epochs'][0]['time'][:4]} for t in keep]
        tmp = cp + f'.{os.getpid()}'
        json.dump(out, open(tmp, 'w'))
        os.replace(tmp, cp)
        return out


MC_INV = {'C01': 'C01_Coupled', 'C02': 'C02_Torques', 'C03': 'C03_Motion', 'C11': 'C11_Grid', 'C13': 'C13_SignSafe, C13_NoClamp, C13_HeldMeansStill',
          'C14': 'C14_Range', 'C16': 'C16_FirstHit', 'C17': 'C17_Rect'}


def design_level(v, pid, tier):
    """design-level model checking behind this property (cached per specification version)"""
    if pid in MC_INV:
        cfg = 'MC_Solver_quick.cfg' if tier == 'quick' else 'MC_Solver.cfg'
        add_mc(v, mc_cached('MC_Solver', cfg), f'Solver.tla state machine, all schedules (new solver / run / continue / reset / rerun) over exact instances; invariants {MC_INV[pid]}')
        if pid == 'C16':
            add_mc(v, mc_cached('MC_Solver', 'MC_Solver_stop.cfg'), 'Solver.tla with stop conditions (sensors x operators x thresholds): invariant C16_FirstHit')
    if pid == 'C13':
        add_mc(v, mc_cached('LockAbs', 'LockAbs.cfg', workers=4), 'LockAbs.tla: sign abstraction of the lock machine, finite and exhaustive = all real parameter values; SafeSign, HeldStill, HeldPos, ResumeOnlyWhenDriven, NeverClampedWithoutSL')
    if pid in ('C14', 'C15'):
        add_mc(v, mc_cached('MC_Control', 'MC_Control.cfg', workers=1), 'Control.tla lemmas: arbitration over 9^3 proposal triples, inclusive timer window, StartLimitCurrent root => current law = limit')


def run_prop(pid, tier, seed, text, known=None):
    v = Verdict(pid, tier, seed)
    design_level(v, pid, tier)
    c = campaign(tier, seed)
    v.states += c['states']
    v.transitions += c['transitions']
    v.traces = c['n_traces']
    v.evaluations = c['instants']
    v.distinct = c['n_traces']
    mine_total = 0
    for tid, fails in c['fails'].items():
        mine = [f for f in fails if prop_of(f) == pid or (pid in ('C01', 'C02', 'C03') and f.startswith('NonFiniteSample'))]
        if mine:
            mine_total += 1
            tr = c['failing_traces'].get(tid, {})
            v.violation({'clauses': mine, 'trace': tid, 'meta': c['meta'].get(tid), 'elems': tr.get('elems'), 'load': tr.get('load'),
                         'ctrls': tr.get('ctrls'), 'stops': tr.get('stops')})
    if pid == 'C11':
        from . import grid_drv
        gev = grid_drv.events(tier, seed)
        gres = validate('Trace_Grid', gev)
        v.states += gres.states; v.transitions += gres.transitions
        v.traces += len(gev); v.evaluations += len(gev)
        gby = {e['id']: e for e in gev}
        for tid, fails in gres.fails.items():
            if fails:
                e = gby[tid]
                v.violation({'clauses': fails, 'grid_case': {k: e[k] for k in ('id', 'm', 'e', 'n', 'unit', 'T_as', 'dt', 'T', 'outcome')},
                             'instants_before': len(e['before']), 'instants_after': len(e['after']),
                             'last_after': e['after'][-1] if e['after'] else None})
        v.extra['enumerated_grid_runs'] = len(gev)
        v.extra['enumeration'] = 'dt = m*10^-e with every m in 1..99, e in 0..3, n in 2..60, T as float(dt)*n or as decimal literal, unit in {sec,min,hour,ms}; half of the cases continued by a second run with its own (m,e,n,unit)'
        v.sample({k: gev[0][k] for k in ('id', 'm', 'e', 'n', 'unit', 'T_as')} | {'instants': len(gev[0]['after'])})
    v.rule = text + ' | shared campaign: seeded random chains of 2..12 elements (spur / helical / worm in both orientations / joints / flywheels, every subset of optional gear data), ' \
        'motors with and without current data, loads (constant below/above stall, negative, speed-, position-, time-dependent with a step), initial speeds of either sign, ' \
        'decimal dt, schedules run / continue (other time units) / reset / rerun on the same or a new Solver, rule sets of 0..4 rules, stop conditions; half of the traces with every input ' \
        'quantity in a random unit; evaluations = recorded instants validated; distinct = traces (each a different seeded instance)'
    v.extra.update(families=c['families'], chain_lengths=c['elements_hist'], recorded_instants=c['instants'],
                   campaign_generation_s=c['gen_s'], campaign_tlc_s=c['tlc_s'],
                   unjudged_lock_decisions=sum(len(n) for n in c['notes'].values()))
    for s in c['samples']:
        v.sample(s)
    v.assumptions = ['discrete decisions within 1e-9 relative of their threshold are not judged (the trace spec branches over both outcomes)',
                     'every numeric relation is checked with tolerance 1e-9 x condition scale in exact rational arithmetic on the exact binary value of each float',
                     'the load function belongs to the harness (parametric family evaluated exactly by the spec)']
    return finish(v, known or {})
