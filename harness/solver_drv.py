"""Shared solver campaign: seeded random instances and schedules executed on the real code, recorded, and
validated instant by instant by Trace_Solver.tla.  One campaign serves C01-C03, C11, C13-C17 (each failing clause
is attributed to the property that states it), cached per (gearpy sources, specification, tier, seed)."""
from __future__ import annotations
import fcntl, glob, hashlib, json, os, random, sys, time
from . import solver_rec, solver_gen
from .core import VERIF, SPEC, repo_hash, Verdict, finish, Machinery, import_repo, mc_cached, add_mc
from .tv import validate

PREFIX = {
    'C01': ('Coupled',),
    'C02': ('Drive', 'Load', 'NetTorque'),
    'C03': ('Acc', 'Integrate', 'Initial'),
    'C11': ('Grid',),
    'C13': ('Lock', 'Clamp', 'Held'),
    'C14': ('Arb', 'Pwm'),
    'C15': ('Rule',),
    'C16': ('Stop',),
    'C17': ('Rect', 'Live', 'Reset'),
    'C09': ('Force', 'Bending', 'Contact'),
    'C08': ('MotorCurrent',),
}
OTHER = ('NonFiniteSample', 'RunOutcome')


def prop_of(clause):
    for p, pre in PREFIX.items():
        if clause.startswith(pre):
            return p
    return 'misc'


def spec_hash():
    h = hashlib.sha256()
    for f in sorted(glob.glob(os.path.join(SPEC, '*.tla')) + glob.glob(os.path.join(VERIF, 'harness', '*.py')) + glob.glob(os.path.join(VERIF, 'java', 'tlc2', 'module', '*.java'))):
        h.update(open(f, 'rb').read())
    return h.hexdigest()[:16]


FAMILIES = ['plain', 'lock', 'control', 'stop', 'mixed']


def _one_trace(args):
    seed, i = args
    import_repo()
    rnd = random.Random(seed * 1000003 + i)
    fam = FAMILIES[i % len(FAMILIES)]
    for attempt in range(20):
        inst = solver_gen.random_instance(rnd, fam)
        try:
            tr = solver_rec.execute(f'{fam}{i}', inst, rnd if i % 2 else None)
            break
        except ValueError:
            # instance not constructible (e.g. worm efficiency out of range after rounding): draw another
            continue
        except Exception as e:          # noqa
            # anything else raised while building / simulating a legal model is a finding, not a machinery problem
            import traceback
            return {'id': f'{fam}{i}', 'unexpected_exception': type(e).__name__, 'where': traceback.format_exc().splitlines()[-3:],
                    'elems': [{k: str(v) for k, v in el.items() if k in ('kind', 'teeth', 'rel', 'module', 'dref')} for el in inst['elems']],
                    'decl_order': inst.get('decl_order'), 'family': fam, 'presentation': 'units' if i % 2 else 'SI'}
    else:
        raise Machinery('could not generate a constructible instance')
    tr['family'] = fam
    tr['presentation'] = 'units' if i % 2 else 'SI'
    return tr


def crafted_instances():
    """Deterministic scenarios around the discrete events the random campaign hits only by chance: the instant the lock
    engages while the chain is still moving, release when the motor's net torque turns, zero / reversed duty cycle, stop
    conditions whose sensor value EQUALS the threshold (speeds exactly zero while held), continuation and rerun of a held chain."""
    from fractions import Fraction as F
    motor = {'kind': 'DCMotor', 'J': F(3, 10**7), 'Tmax': F(1, 100), 'w0': F(200), 'i0': F(1, 10), 'imax': F(2)}
    motor_nc = dict(motor, i0=None, imax=None)
    worm = {'kind': 'WormGear', 'J': F(1, 10**7), 'teeth': 1, 'helix_deg': F(5), 'alpha_deg': F(20), 'rel': {'type': 'joint', 'arg': None}}
    wheel = {'kind': 'WormWheel', 'J': F(1, 10**5), 'teeth': 40, 'helix_deg': F(5), 'alpha_deg': F(20), 'rel': {'type': 'worm', 'arg': F(2, 5)}}
    wheel_free = dict(wheel, rel={'type': 'worm', 'arg': F(1, 50)})          # same stage, not self-locking
    out_gear = {'kind': 'SpurGear', 'J': F(1, 10**5), 'teeth': 20, 'rel': {'type': 'joint', 'arg': None}}
    dt = F(1, 100)

    def ld(c0=0, c1=0, c3=0, ts=10**9, cs=0):
        return {'c0': F(c0), 'c1': F(c1), 'c2': F(0), 'c3': F(c3), 'ts': F(ts), 'cs': F(cs)}

    def const(start, dur, val):
        return {'type': 'const', 'start': F(start), 'dur': F(dur), 'val': F(val)}

    def sched(n, spd0=0, ctrl=None, stop=None, more=()):
        ops = [{'op': 'set_initial', 'pos': F(0), 'spd': F(spd0)}, {'op': 'new_solver', 'sid': 1},
               {'op': 'run', 'sid': 1, 'dt': dt, 'T': dt * n, 'dt_unit': 'sec', 'T_unit': 'sec'}]
        if ctrl is not None:
            ops[2]['ctrl'] = ctrl
        if stop is not None:
            ops[2]['stop'] = stop
        return ops + list(more)
    out = []
    sl = [motor, worm, wheel, out_gear]
    # overload from rest: held from the second instant on; stop conditions with value == threshold (speed exactly 0)
    for i, op in enumerate(['le', 'ge', 'eq', 'lt', 'gt']):
        out.append(('stop_eq_' + op, {'elems': sl, 'load': ld(c0=5), 'ctrls': [], 'stops': [{'sensor': 'tach', 'el': 3, 'op': op, 'thr': F(0)}],
                                      'ops': sched(8, stop=0)}))
        out.append(('stop_eq_motor_' + op, {'elems': sl, 'load': ld(c0=5), 'ctrls': [], 'stops': [{'sensor': 'tach', 'el': 0, 'op': op, 'thr': F(0)}],
                                            'ops': sched(8, spd0=F(-1, 2), stop=0)}))
    # lock engages while moving: initial speed against the duty cycle; duty cycle dropped to 0 mid-motion; reversed duty cycle
    out.append(('engage_initial_speed', {'elems': sl, 'load': ld(c0=F(1, 100)), 'ctrls': [], 'stops': [], 'ops': sched(6, spd0=-3)}))
    out.append(('engage_pwm_zero', {'elems': sl, 'load': ld(c0=F(1, 1000), c1=F(1, 1000)), 'ctrls': [[const(F(5, 200), 1, 0)]], 'stops': [], 'ops': sched(10, ctrl=0)}))
    out.append(('engage_pwm_reversed', {'elems': sl, 'load': ld(c0=F(1, 1000)), 'ctrls': [[const(F(7, 200), 1, -1)]], 'stops': [], 'ops': sched(12, ctrl=0)}))
    out.append(('engage_backdriven', {'elems': sl, 'load': ld(c0=F(1, 1000), c3=0, ts=F(9, 200), cs=50), 'ctrls': [], 'stops': [], 'ops': sched(12)}))
    # release: held by an overload that disappears at t = 0.045 (step in time), motor net torque turns positive
    out.append(('release_when_driven', {'elems': sl, 'load': ld(c0=0, ts=F(0), cs=0) | {'c0': F(0)}, 'ctrls': [], 'stops': [], 'ops': sched(4)}))
    out.append(('hold_then_release', {'elems': sl, 'load': {'c0': F(50), 'c1': F(0), 'c2': F(0), 'c3': F(0), 'ts': F(9, 200), 'cs': F(-50)},
                                      'ctrls': [], 'stops': [], 'ops': sched(12)}))
    # held at the end of a run: continuation, and reset + rerun on the same and on a new Solver
    run2 = {'op': 'run', 'sid': 1, 'dt': dt / 2, 'T': dt * 3, 'dt_unit': 'ms', 'T_unit': 'sec'}
    out.append(('held_continue', {'elems': sl, 'load': ld(c0=5), 'ctrls': [], 'stops': [], 'ops': sched(5, more=[run2])}))
    # the output re-indexed (and given a speed) by the user between a run that ended held and its continuation
    out.append(('held_reindexed', {'elems': sl, 'load': ld(c0=5), 'ctrls': [], 'stops': [],
                                   'ops': sched(5, more=[{'op': 'set_initial', 'pos': F(1, 2), 'spd': F(0)}, dict(run2, dt=dt, dt_unit='sec')])}))
    out.append(('held_reindexed_moving', {'elems': sl, 'load': ld(c0=5), 'ctrls': [], 'stops': [],
                                          'ops': sched(5, more=[{'op': 'set_initial', 'pos': F(-1, 4), 'spd': F(1, 3)}, run2])}))
    out.append(('free_reindexed', {'elems': [motor, worm, wheel_free, out_gear], 'load': ld(c0=F(1, 100)), 'ctrls': [], 'stops': [],
                                   'ops': sched(5, more=[{'op': 'set_initial', 'pos': F(1, 2), 'spd': F(-1, 3)}, run2])}))
    out.append(('held_reset_same', {'elems': sl, 'load': ld(c0=5), 'ctrls': [], 'stops': [],
                                    'ops': sched(5, spd0=2, more=[{'op': 'reset'}, {'op': 'set_initial', 'pos': F(0), 'spd': F(2)},
                                                                  {'op': 'run', 'sid': 1, 'dt': dt, 'T': dt * 5, 'dt_unit': 'sec', 'T_unit': 'sec'}])}))
    out.append(('held_reset_new', {'elems': sl, 'load': ld(c0=5), 'ctrls': [], 'stops': [],
                                   'ops': sched(5, spd0=2, more=[{'op': 'reset'}, {'op': 'set_initial', 'pos': F(0), 'spd': F(2)}, {'op': 'new_solver', 'sid': 2},
                                                                 {'op': 'run', 'sid': 2, 'dt': dt, 'T': dt * 5, 'dt_unit': 'sec', 'T_unit': 'sec'}])}))
    # duty cycle exactly 0 from the very first instant (dead zone from t = 0), with and without self-locking, then released
    gearpair = [motor, {'kind': 'SpurGear', 'J': F(1, 10**6), 'teeth': 10, 'rel': {'type': 'joint', 'arg': None}},
                {'kind': 'SpurGear', 'J': F(1, 10**5), 'teeth': 30, 'rel': {'type': 'gear', 'arg': F(9, 10)}}]
    out.append(('pwm_zero_from_start', {'elems': gearpair, 'load': ld(c0=F(1, 1000)), 'ctrls': [[const(0, F(7, 200), 0)]], 'stops': [], 'ops': sched(8, ctrl=0)}))
    out.append(('pwm_zero_from_start_sl', {'elems': sl, 'load': ld(c0=F(1, 1000)), 'ctrls': [[const(0, F(7, 200), 0)]], 'stops': [],
                                           'ops': sched(8, ctrl=0, more=[{'op': 'reset'}, {'op': 'set_initial', 'pos': F(0), 'spd': F(0)}])}))
    # relations declared back to front (the chain is the same): wheel drives a worm that already drives its follower
    wheel_m = {'kind': 'WormWheel', 'J': F(1, 10**5), 'teeth': 40, 'helix_deg': F(5), 'alpha_deg': F(20), 'module': F(1, 1000), 'b': F(1, 100),
               'rel': {'type': 'joint', 'arg': None}}
    worm_s = {'kind': 'WormGear', 'J': F(1, 10**7), 'teeth': 2, 'helix_deg': F(5), 'alpha_deg': F(20), 'rel': {'type': 'worm', 'arg': F(1, 50)}}
    worm_s_d = dict(worm_s, dref=F(1, 50))
    for nm, w in (('backwards_no_dref', worm_s), ('backwards_dref', worm_s_d)):
        out.append((nm, {'elems': [motor, wheel_m, w, out_gear], 'load': ld(c0=F(1, 100000)), 'ctrls': [], 'stops': [], 'decl_order': [3, 2, 1], 'ops': sched(4)}))
        out.append((nm + '_fwd', {'elems': [motor, wheel_m, w, out_gear], 'load': ld(c0=F(1, 100000)), 'ctrls': [], 'stops': [], 'ops': sched(4)}))
    # a design revision: the output gear was first meshed with another gear, then put on a fixed joint
    out.append(('superseded_mating', {'elems': [motor, {'kind': 'SpurGear', 'J': F(1, 10**6), 'teeth': 21, 'rel': {'type': 'joint', 'arg': None}},
                                                 {'kind': 'SpurGear', 'J': F(1, 10**5), 'teeth': 30, 'rel': {'type': 'gear', 'arg': F(4, 5)}}],
                                      'load': ld(c0=F(1, 1000)), 'ctrls': [], 'stops': [], 'pre_declare': [1], 'ops': sched(5)}))
    # an efficiency sweep on a live model: mating re-declared after the Solver exists, and again after reset
    sweep = sched(4)
    sweep.insert(2, {'op': 'redeclare', 'i': 2, 'arg': F(19, 25)})
    sweep += [{'op': 'redeclare', 'i': 2, 'arg': F(1, 2)}, {'op': 'run', 'sid': 1, 'dt': dt, 'T': dt * 3, 'dt_unit': 'sec', 'T_unit': 'sec'},
              {'op': 'reset'}, {'op': 'set_initial', 'pos': F(0), 'spd': F(0)}, {'op': 'redeclare', 'i': 2, 'arg': F(3, 5)},
              {'op': 'run', 'sid': 1, 'dt': dt, 'T': dt * 4, 'dt_unit': 'sec', 'T_unit': 'sec'}]
    out.append(('efficiency_sweep', {'elems': [motor, {'kind': 'SpurGear', 'J': F(1, 10**6), 'teeth': 10, 'rel': {'type': 'joint', 'arg': None}},
                                                {'kind': 'SpurGear', 'J': F(1, 10**5), 'teeth': 30, 'rel': {'type': 'gear', 'arg': F(4, 5)}}],
                                     'load': ld(c0=F(1, 1000)), 'ctrls': [], 'stops': [], 'ops': sweep}))
    # duty cycle assigned by the USER before the run (no control object): exactly 0 at rest with a load of either sign, a
    # negative one, a fraction inside the dead zone; then a fresh Solver continuing the chain held at duty cycle 0
    for nm, pw, c0 in (('user_pwm0_rest_pos', F(0), F(1, 5)), ('user_pwm0_rest_neg', F(0), F(-1, 5)), ('user_pwm_neg_rest', F(-1), F(1, 5)),
                       ('user_pwm_deadzone', F(1, 50), F(1, 5)), ('user_pwm0_rest_small', F(0), F(1, 10**5))):
        for chn, tag in ((sl, ''), ([motor, worm, wheel_free, out_gear], '_free')):
            ops = [{'op': 'set_initial', 'pos': F(18), 'spd': F(0)}, {'op': 'set_pwm', 'v': pw}, {'op': 'new_solver', 'sid': 1},
                   {'op': 'run', 'sid': 1, 'dt': dt, 'T': dt * 5, 'dt_unit': 'sec', 'T_unit': 'sec'},
                   {'op': 'new_solver', 'sid': 2}, {'op': 'run', 'sid': 2, 'dt': dt, 'T': dt * 4, 'dt_unit': 'sec', 'T_unit': 'sec'},
                   {'op': 'reset'}, {'op': 'set_initial', 'pos': F(18), 'spd': F(0)}, {'op': 'set_pwm', 'v': pw},
                   {'op': 'run', 'sid': 2, 'dt': dt, 'T': dt * 3, 'dt_unit': 'sec', 'T_unit': 'sec'}]
            out.append((nm + tag, {'elems': chn, 'load': ld(c0=c0), 'ctrls': [], 'stops': [], 'ops': ops}))
    # a long coarse run continued with a step that is tiny against the elapsed time (minutes, then milliseconds), and a run of
    # very many small steps is what the random campaign never draws: every instant must still be on the time axis
    heavy = dict(motor, J=F(1))
    big = {'kind': 'SpurGear', 'J': F(2), 'teeth': 20, 'rel': {'type': 'joint', 'arg': None}}
    out.append(('coarse_then_fine', {'elems': [heavy, big], 'load': ld(c0=F(1, 1000)), 'ctrls': [], 'stops': [], 'ops': [
        {'op': 'set_initial', 'pos': F(0), 'spd': F(0)}, {'op': 'new_solver', 'sid': 1},
        {'op': 'run', 'sid': 1, 'dt': F(60), 'T': F(60) * 30, 'dt_unit': 'min', 'T_unit': 'min'},
        {'op': 'run', 'sid': 1, 'dt': F(1, 100), 'T': F(1, 100) * 20, 'dt_unit': 'ms', 'T_unit': 'ms'},
        {'op': 'run', 'sid': 1, 'dt': F(1, 10**6), 'T': F(5, 10**6), 'dt_unit': 'sec', 'T_unit': 'ms'}]}))
    out.append(('nanosecond_steps', {'elems': [heavy, big], 'load': ld(c0=F(1, 1000)), 'ctrls': [], 'stops': [], 'ops': [
        {'op': 'set_initial', 'pos': F(0), 'spd': F(0)}, {'op': 'new_solver', 'sid': 1},
        {'op': 'run', 'sid': 1, 'dt': F(1, 10**9), 'T': F(12, 10**9), 'dt_unit': 'ms', 'T_unit': 'sec'}]}))
    # a second layout declared from shared elements after assembly (the pinion then `drives` another gear)
    out.append(('fork_after_build', {'elems': gearpair, 'load': ld(c0=F(1, 1000)), 'ctrls': [], 'stops': [], 'fork_after_build': [2],
                                     'ops': sched(5, more=[run2])}))
    # TWO external torques: a huge one against the commanded direction on the worm wheel (not the last element), a small one on
    # the last gear; the chain is held (duty cycle 0), then commanded - the motor's net torque never points in the commanded direction
    for nm, big, small, pw in (('two_loads_hold_pos', 50, F(1, 1000), F(1)), ('two_loads_hold_neg', -50, F(-1, 1000), F(-1))):
        ctrl2 = [const(0, F(7, 200), 0)] + ([] if pw == 1 else [const(F(7, 200) + F(1, 1000), 1, pw)])
        out.append((nm, {'elems': sl, 'load': ld(c0=small), 'extra_loads': {2: {'c0': F(big), 'c1': F(0), 'c2': F(0), 'c3': F(0)}},
                         'ctrls': [ctrl2], 'stops': [], 'ops': sched(10, ctrl=0)}))
    out.append(('two_loads_free', {'elems': [motor, worm, wheel_free, out_gear], 'load': ld(c0=F(1, 1000)),
                                   'extra_loads': {2: {'c0': F(1, 100), 'c1': F(1, 1000), 'c2': F(0), 'c3': F(1, 10)}}, 'ctrls': [], 'stops': [], 'ops': sched(8, more=[run2])}))
    # coasting: the duty cycle is inside the dead zone (driving torque exactly 0) while the load function returns exactly 0 - every
    # net torque and every acceleration is exactly 0 although the chain is moving (three-element and five-element chains)
    coast5 = [motor, {'kind': 'Flywheel', 'J': F(1, 10**6), 'rel': {'type': 'joint', 'arg': None}},
              {'kind': 'SpurGear', 'J': F(1, 10**6), 'teeth': 12, 'rel': {'type': 'joint', 'arg': None}},
              {'kind': 'SpurGear', 'J': F(1, 10**5), 'teeth': 36, 'rel': {'type': 'gear', 'arg': F(9, 10)}},
              {'kind': 'SpurGear', 'J': F(1, 10**5), 'teeth': 15, 'rel': {'type': 'joint', 'arg': None}}]
    for nm, chn in (('coast_zero_torque', gearpair), ('coast_zero_torque_5', coast5)):
        out.append((nm, {'elems': chn, 'load': ld(c0=0), 'ctrls': [[const(F(5, 200), F(3, 100), 0)]], 'stops': [], 'ops': sched(10, ctrl=0, more=[run2])}))
    # optional-data subsets around the contact stress: the gear has module, face width and elastic modulus, its mate has module and
    # elastic modulus but NO face width (legal: the gear's contact stress is computable, the mate's is not), either orientation
    full = {'module': F(1, 1000), 'b': F(1, 100), 'E': F(21, 10) * 10**11}
    part = {'module': F(1, 1000), 'E': F(3, 1) * 10**9}
    for nm, da, db in (('contact_mate_without_width', full, part), ('contact_self_without_width', part, full)):
        chn = [motor, dict({'kind': 'SpurGear', 'J': F(1, 10**6), 'teeth': 12, 'rel': {'type': 'joint', 'arg': None}}, **da),
               dict({'kind': 'SpurGear', 'J': F(1, 10**5), 'teeth': 30, 'rel': {'type': 'gear', 'arg': F(9, 10)}}, **db)]
        out.append((nm, {'elems': chn, 'load': ld(c0=F(1, 1000)), 'ctrls': [], 'stops': [], 'ops': sched(5, more=[run2, {'op': 'reset'}])}))
    # a friction sweep before assembly: the same worm pair declared first self-locking then free, and the other way round
    out.append(('sweep_sl_then_free', {'elems': [motor, worm, wheel_free, out_gear], 'load': ld(c0=5), 'ctrls': [], 'stops': [], 'pre_worm': {2: F(2, 5)}, 'ops': sched(6)}))
    out.append(('sweep_free_then_sl', {'elems': sl, 'load': ld(c0=5), 'ctrls': [], 'stops': [], 'pre_worm': {2: F(1, 50)}, 'ops': sched(6)}))
    # two worm stages in one chain, only ONE of them self-locking (either order): the chain is self-locking
    worm_b = dict(worm, J=F(2, 10**7))
    for nm, first, second in (('double_worm_free_then_sl', wheel_free, wheel), ('double_worm_sl_then_free', wheel, wheel_free)):
        chn = [motor, worm, dict(first), worm_b, dict(second, teeth=30), out_gear]
        out.append((nm, {'elems': chn, 'load': ld(c0=50), 'ctrls': [], 'stops': [], 'ops': sched(6)}))
        out.append((nm + '_pwm0', {'elems': chn, 'load': ld(c0=F(-1, 2)), 'ctrls': [[const(F(3, 200), 1, 0)]], 'stops': [], 'ops': sched(8, spd0=F(1, 100), ctrl=0)}))
    # two resets in a row, and a reset before anything was simulated (nothing to restore: must raise, not corrupt)
    out.append(('double_reset', {'elems': gearpair, 'load': ld(c0=F(1, 1000)), 'ctrls': [], 'stops': [],
                                 'ops': sched(4, more=[{'op': 'reset'}, {'op': 'reset'}])}))
    out.append(('reset_then_rerun_twice', {'elems': sl, 'load': ld(c0=5), 'ctrls': [], 'stops': [],
                                           'ops': sched(4, more=[{'op': 'reset'}, {'op': 'set_initial', 'pos': F(0), 'spd': F(0)},
                                                                 {'op': 'run', 'sid': 1, 'dt': dt, 'T': dt * 3, 'dt_unit': 'sec', 'T_unit': 'sec'}, {'op': 'reset'},
                                                                 {'op': 'set_initial', 'pos': F(0), 'spd': F(0)},
                                                                 {'op': 'run', 'sid': 1, 'dt': dt, 'T': dt * 3, 'dt_unit': 'ms', 'T_unit': 'ms'}])}))
    out.append(('reset_before_run', {'elems': gearpair, 'load': ld(c0=F(1, 1000)), 'ctrls': [], 'stops': [],
                                     'ops': [{'op': 'set_initial', 'pos': F(0), 'spd': F(0)}, {'op': 'new_solver', 'sid': 1}, {'op': 'reset'}]}))
    # numpy scalars in the load function and in the stop threshold (the documentation's examples write loads with np.sin / np.exp)
    for nm, inst0 in list(out):
        if nm.startswith('stop_eq_') or nm in ('hold_then_release', 'engage_pwm_zero'):
            out.append((nm + '_np', dict(inst0, numpy=True)))
    free_stop = {'elems': gearpair, 'load': ld(c0=F(1, 1000)), 'ctrls': [], 'stops': [{'sensor': 'tach', 'el': 0, 'op': 'gt', 'thr': F(50)}], 'ops': sched(40, stop=0)}
    out.append(('free_stop_gt', free_stop))
    # a LONG request (thousands of instants asked for) that a stop condition ends after a few dozen
    for nm, n_req, thr in (('long_request_stop', 5000, F(150)), ('long_request_stop_9000', 9000, F(120))):
        ops_l = [{'op': 'set_initial', 'pos': F(0), 'spd': F(0)}, {'op': 'new_solver', 'sid': 1},
                 {'op': 'run', 'sid': 1, 'dt': F(1, 1000), 'T': F(n_req, 1000), 'dt_unit': 'sec', 'T_unit': 'sec', 'stop': 0}]
        out.append((nm, {'elems': gearpair, 'load': ld(c0=F(1, 1000)), 'ctrls': [], 'stops': [{'sensor': 'tach', 'el': 0, 'op': 'ge', 'thr': thr}], 'ops': ops_l}))
    out.append(('free_stop_gt_np', dict(free_stop, numpy=True)))
    # the same loads on the non-self-locking stage and on a motor without current data: never clamped
    out.append(('free_overload', {'elems': [motor, worm, wheel_free, out_gear], 'load': ld(c0=5), 'ctrls': [[const(F(5, 200), 1, 0)]], 'stops': [], 'ops': sched(8, spd0=-3, ctrl=0)}))
    out.append(('nocurrent_locked', {'elems': [motor_nc, worm, wheel], 'load': ld(c0=5), 'ctrls': [[const(F(3, 200), F(3, 100), 0)]], 'stops': [], 'ops': sched(10, ctrl=0)}))
    return out


def exact_instances():
    """The exact (dyadic) instance family of MC_Solver, executed on the real code: timer windows that start and end exactly on
    grid instants, two rules overlapping at exactly one instant, scripted proposals, stop thresholds, loads far above stall,
    the self-locking and the free worm stage; schedules run / continue / reset / rerun.  Recorded with exact = TRUE, so
    Trace_Solver judges every decision AT its threshold (no rounding band)."""
    from fractions import Fraction as F
    mA = {'kind': 'DCMotor', 'J': F(1), 'Tmax': F(2), 'w0': F(16), 'i0': None, 'imax': None}
    mB = dict(mA, i0=F(1, 4), imax=F(2))                        # dead zone |D| <= 1/8
    def g(J, rt, teeth, arg=None):
        return {'kind': 'SpurGear', 'J': F(J), 'teeth': teeth, 'rel': {'type': rt, 'arg': None if arg is None else F(arg)}}
    worm = {'kind': 'WormGear', 'J': F(1), 'teeth': 1, 'helix_deg': F(6), 'alpha_deg': F(20), 'rel': {'type': 'joint', 'arg': None}}
    def wheel(f):
        return {'kind': 'WormWheel', 'J': F(8), 'teeth': 20, 'helix_deg': F(6), 'alpha_deg': F(20), 'rel': {'type': 'worm', 'arg': F(f)}}
    def chains(m):
        return [[m, g(2, 'joint', 10)], [m, g(1, 'joint', 10), g(4, 'gear', 20, F(1, 2))],
                [m, {'kind': 'Flywheel', 'J': F(1), 'rel': {'type': 'joint', 'arg': None}}, g(3, 'joint', 12), g(2, 'gear', 36, F(3, 4)), g(1, 'gear', 18, 1)],
                [m, worm, wheel(F(2, 5))], [m, worm, wheel(F(1, 32))]]
    def ld(c0=0, c1=0, c2=0, c3=0, ts=1000, cs=0):
        return {'c0': F(c0), 'c1': F(c1), 'c2': F(c2), 'c3': F(c3), 'ts': F(ts), 'cs': F(cs)}
    loads = [ld(), ld(c0=F(1, 2)), ld(c0=100), ld(c0=-3), ld(c0=F(1, 2), c1=F(1, 8)), ld(c2=F(1, 4)), ld(c0=F(1, 4), ts=F(3, 4), cs=50)]
    def const(start, dur, val):
        return {'type': 'const', 'start': F(start), 'dur': F(dur), 'val': F(val)}
    ctrls = [[], [const(0, 1, 0)], [const(F(1, 2), F(1, 2), -1)], [const(0, F(1, 2), F(1, 2)), const(F(3, 4), 1, 1)],
             [const(0, 1, F(1, 2)), const(1, 1, F(-1, 2))],                       # both active at exactly t = 1: conflict
             [{'type': 'custom', 'script': [None, F(-7), F(1, 4), None]}],
             [{'type': 'reach', 'el': 1, 'target': F(6), 'brake': F(4)}], [const(0, F(3, 2), F(1, 8))], [const(0, F(3, 2), F(-1, 8))]]   # on the dead-zone boundary
    stops = [None, {'sensor': 'tach', 'el': 0, 'op': 'gt', 'thr': F(2)}, {'sensor': 'enc', 'el': 1, 'op': 'ge', 'thr': F(1, 2)},
             {'sensor': 'tach', 'el': 1, 'op': 'le', 'thr': F(0)}, {'sensor': 'tach', 'el': 0, 'op': 'eq', 'thr': F(0)}]
    out = []
    k = 0
    for m in (mA, mB):
        for ci, ch in enumerate(chains(m)):
            for li, load in enumerate(loads):
                for ki, ctrl in enumerate(ctrls):
                    k += 1
                    # a covering slice: every (chain, load), every (chain, ctrl), every (load, ctrl) appears; not the full product
                    if not ((li + ki + ci) % 3 == 0 or ki == 0 and li % 2 == 0):
                        continue
                    dt = [F(1, 2), F(1, 4)][(li + ki) % 2]
                    spd0 = [F(0), F(-2), F(3)][(ci + ki) % 3]
                    stop = stops[(ci + li + ki) % len(stops)] if ki == 0 else None
                    run = {'op': 'run', 'sid': 1, 'dt': dt, 'T': dt * 2, 'dt_unit': 'sec', 'T_unit': 'sec', 'ctrl': 0}
                    ops = [{'op': 'set_initial', 'pos': F(0), 'spd': spd0, 'pos_unit': 'rad', 'spd_unit': 'rad/s'}, {'op': 'new_solver', 'sid': 1}, dict(run),
                           dict(run, T=dt * 3), {'op': 'reset'}, {'op': 'set_initial', 'pos': F(0), 'spd': spd0, 'pos_unit': 'rad', 'spd_unit': 'rad/s'}, dict(run, T=dt * 4)]
                    inst = {'elems': ch, 'load': load, 'ctrls': [ctrl], 'stops': [stop] if stop else [], 'ops': ops}
                    if stop:
                        for o in ops:
                            if o['op'] == 'run':
                                o['stop'] = 0
                    out.append((f'{k}', inst))
    return out


def _exact_traces():
    import_repo()
    out = []
    for name, inst in exact_instances():
        try:
            tr = solver_rec.execute('exact_' + name, inst, None)
        except ValueError:
            continue
        tr['family'] = 'exact'
        tr['presentation'] = 'SI'
        tr['exact'] = True
        out.append(tr)
    return out


def _threshold_from_trajectory():
    """Stop thresholds that EQUAL a reading of the trajectory, given in another unit than the one the element carries (C05: the two
    then compare equal although they are not bit-equal after conversion): a free run first, then the same model with a stop
    condition whose threshold is the reading of instant 6 re-expressed in rpm / deg; all five operators, motor tachometer and
    output encoder."""
    from fractions import Fraction as F
    import copy
    base = dict(crafted_instances())['free_stop_gt']
    base = dict(base, stops=[], ops=[dict(o) for o in base['ops']])
    for o in base['ops']:
        o.pop('stop', None)
        if o['op'] == 'run':
            o['T'] = o['dt'] * 12
    free = solver_rec.execute('probe', copy.deepcopy(base), None)
    h = free['epochs'][0]['hist']
    out = []
    for sensor, el, key, unit in (('tach', 0, 'angular_speed', 'rpm'), ('enc', 2, 'angular_position', 'deg'), ('tach', 2, 'angular_speed', 'deg/s')):
        v = h[el][key][5]                                   # the reading at the sixth recorded instant, exact
        val = F(int(v.split('/')[0]), int(v.split('/')[1])) if '/' in v else F(v)
        for op in ('eq', 'ge', 'gt', 'le', 'lt'):
            inst = copy.deepcopy(base)
            inst['stops'] = [{'sensor': sensor, 'el': el, 'op': op, 'thr': val, 'thr_unit': unit}]
            for o in inst['ops']:
                if o['op'] == 'run':
                    o['stop'] = 0
            out.append((f'thr_on_trajectory_{sensor}{el}_{op}', inst))
    return out


def _crafted_traces():
    import_repo()
    import copy
    out = []
    for name, inst in crafted_instances() + _threshold_from_trajectory():
        tr = solver_rec.execute('crafted_' + name, copy.deepcopy(inst), None)
        tr['family'] = 'crafted'
        tr['presentation'] = 'SI'
        out.append(tr)
    return out


def repo_test_traces(tier, seed=0):
    """Executions of the repository's OWN solver test (tests/test_solver, hypothesis-generated powertrains of 7..40 elements, a first
    run with a stop condition and a continuation with a multiplied time step), recorded by a pytest plugin that lives in /verif
    (harness/repo_trace_plugin.py) and validated like every other trace."""
    import subprocess, tempfile
    from .core import REPO
    n = 4 if tier == 'quick' else 40
    fd, out = tempfile.mkstemp(prefix='verif-repotrace-', suffix='.ndjson')
    os.close(fd)
    env = dict(os.environ, VERIF_REPO_TRACE_OUT=out, VERIF_REPO_TRACE_MAX=str(3 * n), VERIF_REPO_TRACE_KEEP=str(n), VERIF_REPO_TRACE_MAX_INSTANTS='70' if tier == 'quick' else '150',
               PYTHONPATH=VERIF + os.pathsep + os.environ.get('PYTHONPATH', ''), PYTHONHASHSEED='0', PYTHONDONTWRITEBYTECODE='1',
               HYPOTHESIS_STORAGE_DIRECTORY=tempfile.mkdtemp(prefix='verif-hyp-'))       # nothing is written into the repository
    try:
        # the hypothesis seed is fixed by the check's seed: the recorded executions are a deterministic function of (sources, seed)
        p = subprocess.run([sys.executable, '-m', 'pytest', '-q', '-p', 'no:cacheprovider', '-p', 'harness.repo_trace_plugin', '-x', f'--hypothesis-seed={seed % 2**31}',
                            'tests/test_solver/test_solver.py::TestSolverRun::test_method', '-W', 'ignore'],
                           cwd=REPO, env=env, capture_output=True, text=True, timeout=1800)
        traces = [json.loads(l) for l in open(out)] if os.path.getsize(out) else []
    finally:
        os.unlink(out)
        import shutil
        shutil.rmtree(env['HYPOTHESIS_STORAGE_DIRECTORY'], ignore_errors=True)
    # (if the repository's test cannot run on this tree nothing is recorded; the other families do not depend on it)
    return traces


def gen_traces(tier, seed):
    from concurrent.futures import ProcessPoolExecutor
    n = 260 if tier == 'quick' else 4000
    with ProcessPoolExecutor(max_workers=min(16, os.cpu_count() or 4)) as ex:
        return list(ex.map(_one_trace, [(seed, i) for i in range(n)], chunksize=4)) + _crafted_traces() + _exact_traces() + repo_test_traces(tier, seed)


def campaign(tier, seed):
    """-> dict with per-trace failing clauses, stats and a few sample traces (cached)."""
    key = f'solver-{repo_hash()}-{spec_hash()}-{tier}-{seed}'
    cdir = os.path.join(VERIF, '.cache')
    os.makedirs(cdir, exist_ok=True)
    cp = os.path.join(cdir, key + '.json')
    with open(os.path.join(cdir, key + '.lock'), 'w') as lf:
        fcntl.flock(lf, fcntl.LOCK_EX)
        if os.path.exists(cp):
            return json.load(open(cp))
        t0 = time.time()
        traces = gen_traces(tier, seed)
        crashed = [t for t in traces if 'unexpected_exception' in t]
        traces = [t for t in traces if 'unexpected_exception' not in t]
        t1 = time.time()
        res = validate('Trace_Solver', traces, workers_per_shard=1, shards=16, dfs_queue=True, timeout=7200)
        out = {'fails': res.fails, 'notes': res.notes, 'states': res.states, 'transitions': res.transitions,
               'n_traces': len(traces), 'gen_s': round(t1 - t0, 1), 'tlc_s': round(time.time() - t1, 1),
               'instants': sum(len(e['time']) for t in traces for e in t['epochs']),
               'elements_hist': {}, 'families': {}, 'meta': {}, 'samples': [], 'crashed': crashed}
        for t in traces:
            out['families'][t['family']] = out['families'].get(t['family'], 0) + 1
            n_el = len(t['elems'])
            out['elements_hist'][str(n_el)] = out['elements_hist'].get(str(n_el), 0) + 1
            out['meta'][t['id']] = {'elems': [e['kind'] for e in t['elems']], 'selfLocking': t['selfLocking'], 'presentation': t['presentation'],
                                    'ops': [{k: o[k] for k in o if k in ('op', 'sid', 'dt', 'T', 'dt_unit', 'T_unit', 'ctrl', 'stop', 'outcome', 'first', 'last')} for o in t['ops']]}
        # keep the full trace of every failing one (for replay files) and two passing samples
        out['failing_traces'] = {t['id']: t for t in traces if res.fails.get(t['id'])}
        keep = [t for t in traces if not res.fails.get(t['id'])][:2]
        out['samples'] = [{'id': t['id'], 'elems': [{k: e[k] for k in ('kind', 'teeth', 'rtype', 'arg', 'role')} for e in t['elems']],
                           'ops': out['meta'][t['id']]['ops'], 'time': t['epochs'][0]['time'][:4]} for t in keep]
        tmp = cp + f'.{os.getpid()}'
        json.dump(out, open(tmp, 'w'))
        os.replace(tmp, cp)
        return out


MC_INV = {'C01': 'C01_Coupled', 'C02': 'C02_Torques', 'C03': 'C03_Motion', 'C11': 'C11_Grid', 'C13': 'C13_SignSafe, C13_NoClamp, C13_HeldMeansStill and the refinement property RefinesLockAbs (every step of Solver is a step of the sign abstraction)',
          'C14': 'C14_Range', 'C16': 'C16_FirstHit', 'C17': 'C17_Rect'}


def design_level(v, pid, tier):
    """design-level model checking behind this property (cached per specification version)"""
    if pid in MC_INV:
        cfg = 'MC_Solver_quick.cfg' if tier == 'quick' else 'MC_Solver.cfg'
        add_mc(v, mc_cached('MC_Solver', cfg), f'Solver.tla state machine, all schedules (new solver / run / continue / reset / rerun) over exact instances; invariants {MC_INV[pid]}')
        w = mc_cached('MC_Solver', 'MC_Solver_witness.cfg')
        add_mc(v, w, 'reachability witness (vacuity guard): a held self-locking chain re-simulated by a second Solver after reset must be reachable', expect_violation='Witness_DeepRerun')
        if w['violated'] != 'Witness_DeepRerun':
            raise Machinery('vacuity guard: MC_Solver does not reach reset + rerun on a second Solver of a held self-locking chain')
        if pid in ('C03', 'C13'):
            add_mc(v, mc_cached('MC_Solver', 'MC_Solver_user.cfg'), 'Solver.tla with USER interventions between calls (duty cycle assigned: 0 / -1; output re-indexed at rest or with a speed): '
                   'all invariants; the step relation from the live attributes; RefinesLockAbs with the abstraction\'s UserPwm / UserSpd actions')
            uw = mc_cached('MC_Solver', 'MC_Solver_userwit.cfg')
            add_mc(v, uw, 'reachability witness: a held chain that moved between two held instants because the user gave it a speed', expect_violation='Witness_UserMovesHeld')
            if uw['violated'] != 'Witness_UserMovesHeld':
                raise Machinery('vacuity guard: the user actions of Solver.tla do not reach a re-indexed held chain')
        if pid == 'C16':
            add_mc(v, mc_cached('MC_Solver', 'MC_Solver_stop.cfg'), 'Solver.tla with stop conditions (sensors x operators x thresholds): invariant C16_FirstHit')
    if pid == 'C13':
        add_mc(v, mc_cached('LockAbs', 'LockAbs.cfg', workers=4, coverage=True), need_actions=('First', 'Later', 'Fresh', 'UserPwm', 'UserSpd'), label='LockAbs.tla: sign abstraction of the lock machine, finite and exhaustive = all real parameter values; SafeSign, HeldStill, HeldPos, ResumeOnlyWhenDriven, NeverClampedWithoutSL')
    if pid in ('C14', 'C15'):
        add_mc(v, mc_cached('MC_Control', 'MC_Control.cfg', workers=1), 'Control.tla lemmas: arbitration over 9^3 proposal triples, inclusive timer window, StartLimitCurrent root => current law = limit')


def campaign_part(v, pid, tier, seed, what):
    """the part of the shared solver campaign that speaks about property `pid` (recorded simulations judged instant by instant by
    Trace_Solver): its failing clauses become violations of `pid`; used by checks whose main driver calls the objects directly"""
    c = campaign(tier, seed)
    v.states += c['states']
    v.transitions += c['transitions']
    v.traces += c['n_traces']
    for tid, fails in c['fails'].items():
        mine = [f for f in fails if prop_of(f) == pid]
        if mine:
            tr = c['failing_traces'].get(tid, {})
            v.violation({'clauses': mine, 'trace': tid, 'meta': c['meta'].get(tid), 'elems': tr.get('elems'), 'load': tr.get('load'),
                         'ctrls': tr.get('ctrls'), 'stops': tr.get('stops')})
    v.extra['simulated'] = {'what': what, 'traces': c['n_traces'], 'recorded_instants': c['instants'], 'families': c['families']}


def run_prop(pid, tier, seed, text, known=None):
    v = Verdict(pid, tier, seed)
    design_level(v, pid, tier)
    c = campaign(tier, seed)
    v.states += c['states']
    v.transitions += c['transitions']
    v.traces = c['n_traces']
    v.evaluations = c['instants']
    v.distinct = c['n_traces']
    mine_total = 0
    for tid, fails in c['fails'].items():
        mine = [f for f in fails if prop_of(f) == pid or (pid in ('C01', 'C02', 'C03') and f.startswith('NonFiniteSample'))]
        if mine:
            mine_total += 1
            tr = c['failing_traces'].get(tid, {})
            v.violation({'clauses': mine, 'trace': tid, 'meta': c['meta'].get(tid), 'elems': tr.get('elems'), 'load': tr.get('load'),
                         'ctrls': tr.get('ctrls'), 'stops': tr.get('stops')})
    if pid == 'C15':
        from . import rules_drv
        rev = rules_drv.events()
        rres = validate('Trace_Rules', rev, shards=2)
        v.states += rres.states; v.transitions += rres.transitions
        v.traces += len(rev); v.evaluations += len(rev)
        rby = {e['id']: e for e in rev}
        for tid, fails in rres.fails.items():
            if fails:
                v.violation({'clauses': fails, 'boundary_case': rby[tid]})
        v.extra['boundary_grid_events'] = len(rev)
        v.sample({k: rev[1][k] for k in ('id', 'rule', 'where', 't', 'out')})
    if pid == 'C11':
        from . import grid_drv
        gev = grid_drv.events(tier, seed)
        gres = validate('Trace_Grid', gev)
        v.states += gres.states; v.transitions += gres.transitions
        v.traces += len(gev); v.evaluations += len(gev)
        gby = {e['id']: e for e in gev}
        for tid, fails in gres.fails.items():
            if fails:
                e = gby[tid]
                v.violation({'clauses': fails, 'grid_case': {k: e[k] for k in ('id', 'm', 'e', 'n', 'unit', 'T_as', 'dt', 'T', 'outcome')},
                             'instants_before': len(e['before']), 'instants_after': len(e['after']),
                             'last_after': e['after'][-1] if e['after'] else None})
        v.extra['enumerated_grid_runs'] = len(gev)
        v.extra['enumeration'] = 'dt = m*10^-e with every m in 1..99, e in 0..3, n in 2..60, T as float(dt)*n or as decimal literal, unit in {sec,min,hour,ms}; half of the cases continued by a second run with its own (m,e,n,unit)'
        v.sample({k: gev[0][k] for k in ('id', 'm', 'e', 'n', 'unit', 'T_as')} | {'instants': len(gev[0]['after'])})
    for t in c.get('crashed', []):
        # a legal model whose construction or simulation raised something unexpected: every property quantified over models is affected
        v.violation({'clauses': ['ModelRaisedUnexpectedly_' + t['unexpected_exception']], 'trace': t['id'], 'where': t['where'], 'elems': t['elems'],
                     'decl_order': t['decl_order']})
    v.rule = text + ' | shared campaign: seeded random chains of 2..12 elements (spur / helical / worm in both orientations / joints / flywheels, every subset of optional gear data), ' \
        'motors with and without current data, loads (constant below/above stall, negative, speed-, position-, time-dependent with a step), initial speeds of either sign, ' \
        'decimal dt, schedules run / continue (other time units) / reset / rerun on the same or a new Solver, rule sets of 0..4 rules, stop conditions; half of the traces with every input ' \
        'quantity in a random unit; evaluations = recorded instants validated; distinct = traces (each a different seeded instance)'
    v.extra.update(families=c['families'], chain_lengths=c['elements_hist'], recorded_instants=c['instants'],
                   campaign_generation_s=c['gen_s'], campaign_tlc_s=c['tlc_s'],
                   unjudged_lock_decisions=sum(len(n) for n in c['notes'].values()))
    for s in c['samples']:
        v.sample(s)
    v.assumptions = ['discrete decisions within 1e-9 relative of their threshold are not judged (the trace spec branches over both outcomes)',
                     'every numeric relation is checked with tolerance 1e-9 x condition scale in exact rational arithmetic on the exact binary value of each float',
                     'the load function belongs to the harness (parametric family evaluated exactly by the spec)']
    return finish(v, known or {})
