from __future__ import annotations
import argparse, os, sys, traceback
from .core import Machinery


def main():
    ap = argparse.ArgumentParser()
    ap.add_argument('pid')
    ap.add_argument('--tier', default=os.environ.get('VERIF_TIER', 'quick'), choices=['quick', 'thorough'])
    ap.add_argument('--seed', type=int, default=int(os.environ.get('VERIF_SEED', '20260926')))
    ap.add_argument('--replay')
    a = ap.parse_args()
    os.environ.setdefault('PYTHONHASHSEED', '0')
    try:
        from . import registry
        rc = registry.run(a.pid, a.tier, a.seed, a.replay)
    except Machinery as e:
        print(f'MACHINERY-FAILURE property={a.pid}: {e}', file=sys.stderr)
        sys.exit(2)
    except Exception:
        traceback.print_exc()
        print(f'MACHINERY-FAILURE property={a.pid}: unexpected exception', file=sys.stderr)
        sys.exit(2)
    sys.exit(rc)


if __name__ == '__main__':
    main()
