"""C12 (continuation / reset+rerun) and C07 (unit independence): pairs of recorded executions compared by
Trace_Pair.tla; every single execution is also validated instant by instant by Trace_Solver.tla."""
from __future__ import annotations
import copy, json, os, random
from concurrent.futures import ProcessPoolExecutor
from fractions import Fraction
from . import solver_gen, solver_rec, spectab
from .core import import_repo, Verdict, finish, Machinery, frac, mc_cached, add_mc
from .tv import validate
from .solver_drv import prop_of

F = Fraction


def _base_instance(rnd, fam):
    inst = solver_gen.random_instance(rnd, fam, stable=True)
    # keep the model, drop its schedule
    first_run = next(o for o in inst['ops'] if o['op'] == 'run')
    init = inst['ops'][0]
    inst['ctrls'] = inst['ctrls'][:1] if first_run.get('ctrl') is not None else []
    inst['stops'] = []
    return inst, init, first_run['dt'], (0 if inst['ctrls'] else None)


def _c12_one(args):
    seed, i = args
    import_repo()
    rnd = random.Random(seed * 999983 + i)
    fam = ['plain', 'lock', 'control', 'lock', 'mixed'][i % 5]
    for attempt in range(30):
        inst, init, dt, ctrl = _base_instance(rnd, fam)
        n1, n2 = rnd.randint(2, 14), rnd.randint(2, 10)

        def run(n, sid=1, units=False):
            op = {'op': 'run', 'sid': sid, 'dt': dt, 'T': dt * n, 'dt_unit': 'sec', 'T_unit': 'sec'}
            if ctrl is not None:
                op['ctrl'] = ctrl
            if units:
                op['dt_unit'] = rnd.choice(solver_gen.TIME_UNITS)
                op['T_unit'] = rnd.choice(solver_gen.TIME_UNITS)
            return op
        try:
            out = []
            if i % 2 == 0:
                # split vs single
                n3 = rnd.randint(2, 6) if rnd.random() < 0.35 else 0          # now and then split in three
                a = dict(inst, ops=[init, {'op': 'new_solver', 'sid': 1}, run(n1 + n2 + n3)])
                b = dict(inst, ops=[init, {'op': 'new_solver', 'sid': 1}, run(n1), run(n2, units=rnd.random() < 0.7)] +
                         ([run(n3, units=rnd.random() < 0.7)] if n3 else []))
                units_rnd = rnd if rnd.random() < 0.3 else None
                ta = solver_rec.execute(f's{i}a', copy.deepcopy(a), None if units_rnd is None else random.Random(i))
                tb = solver_rec.execute(f's{i}b', copy.deepcopy(b), None if units_rnd is None else random.Random(i))
                pair = {'id': f'split{i}', 'kind': 'split', 'mode': 'close', 'A': ta['epochs'][0], 'B': tb['epochs'][0],
                        'outA': [o.get('outcome', 'ok') for o in ta['ops'] if o['op'] == 'run'][-1],
                        'outB': [o.get('outcome', 'ok') for o in tb['ops'] if o['op'] == 'run'][-1]}
                # an execution in which a call raised is outside the statement
                if any(o.get('outcome', 'ok') != 'ok' for o in ta['ops'] + tb['ops']):
                    continue
                return [ta, tb], [pair], {'selfLocking': ta['selfLocking'], 'src': tb['id'], 'parts': 3 if n3 else 2}
            else:
                new_solver = rnd.random() < 0.5
                two = rnd.random() < 0.5
                sched = [run(n1)] + ([run(n2, units=rnd.random() < 0.5)] if two else [])
                ops = [init, {'op': 'new_solver', 'sid': 1}] + copy.deepcopy(sched) + [{'op': 'reset'}, init]
                sid = 1
                if new_solver:
                    ops.append({'op': 'new_solver', 'sid': 2})
                    sid = 2
                ops += [dict(o, sid=sid) for o in copy.deepcopy(sched)]
                third = rnd.random() < 0.35
                if third:
                    # a second reset and a third repetition, on either Solver (or a third one)
                    ops += [{'op': 'reset'}, init]
                    sid3 = rnd.choice([1, sid, sid + 1])          # (solver ids are creation order)
                    if sid3 == sid + 1:
                        ops.append({'op': 'new_solver', 'sid': sid3})
                    ops += [dict(o, sid=sid3) for o in copy.deepcopy(sched)]
                t = solver_rec.execute(f'r{i}', dict(inst, ops=ops), rnd if rnd.random() < 0.3 else None)
                if any(o.get('outcome', 'ok') != 'ok' for o in t['ops']) or len(t['epochs']) != (3 if third else 2):
                    continue
                r0 = next(o for o in t['ops'] if o['op'] == 'run')
                prs = [{'id': f'rerun{i}', 'kind': 'rerun', 'mode': 'exact', 'A': t['epochs'][0], 'B': t['epochs'][1], 'outA': 'ok', 'outB': 'ok'}]
                if third:
                    prs.append({'id': f'rerun{i}third', 'kind': 'rerun', 'mode': 'exact', 'A': t['epochs'][0], 'B': t['epochs'][2], 'outA': 'ok', 'outB': 'ok'})
                meta = {'selfLocking': t['selfLocking'], 'new_solver': new_solver, 'pwm_before_first_run': r0['pwm_before'], 'src': t['id'], 'epochs': len(t['epochs']),
                        'first_recorded_pwm': t['epochs'][0]['hist'][0]['pwm'][0] if t['epochs'][0]['hist'][0].get('pwm') else 'null'}
                return [t], prs, meta
        except ValueError:
            continue
    raise Machinery('could not generate a C12 case')


def _f4(case):
    """F4: reset restores the FIRST RECORDED duty cycle, the original run started from the motor's duty cycle attribute;
    on a self-locking chain the instant-0 lock decision reads it."""
    m = case.get('meta', {})
    return (case.get('kind') == 'rerun' and m.get('selfLocking') and m.get('first_recorded_pwm') not in (None, 'null')
            and frac(m['first_recorded_pwm']) != frac(m['pwm_before_first_run']))


def _f4_demo():
    """The listed known finding F4, re-demonstrated on the real code at every run: self-locking worm stage, a rule that sets
    duty cycle 0 at instant 0; reset restores that FIRST RECORDED duty cycle, so the rerun's instant-0 lock decision differs."""
    import_repo()
    dt = F(1, 100)
    inst = {'elems': [
        {'kind': 'DCMotor', 'J': F(3, 10**7), 'Tmax': F(1, 100), 'w0': F(200), 'i0': None, 'imax': None},
        {'kind': 'WormGear', 'J': F(1, 10**7), 'teeth': 1, 'helix_deg': F(5), 'alpha_deg': F(20), 'rel': {'type': 'joint', 'arg': None}},
        {'kind': 'WormWheel', 'J': F(1, 10**5), 'teeth': 40, 'helix_deg': F(5), 'alpha_deg': F(20), 'rel': {'type': 'worm', 'arg': F(2, 5)}}],
        'load': {'c0': F(1, 50), 'c1': F(0), 'c2': F(0), 'c3': F(0), 'ts': F(10**9), 'cs': F(0)},
        'ctrls': [[{'type': 'const', 'start': F(0), 'dur': dt * F(5, 2), 'val': F(0)}]], 'stops': []}
    init = {'op': 'set_initial', 'pos': F(0), 'spd': F(0)}
    run = {'op': 'run', 'sid': 1, 'dt': dt, 'T': dt * 6, 'ctrl': 0, 'dt_unit': 'sec', 'T_unit': 'sec'}
    ops = [init, {'op': 'new_solver', 'sid': 1}, dict(run), {'op': 'reset'}, dict(init), {'op': 'new_solver', 'sid': 2}, dict(run, sid=2)]
    t = solver_rec.execute('rF4demo', dict(inst, ops=ops), None)
    r0 = next(o for o in t['ops'] if o['op'] == 'run')
    pair = {'id': 'rerunF4demo', 'kind': 'rerun', 'mode': 'exact', 'A': t['epochs'][0], 'B': t['epochs'][1], 'outA': 'ok', 'outB': 'ok'}
    meta = {'selfLocking': t['selfLocking'], 'new_solver': True, 'pwm_before_first_run': r0['pwm_before'], 'src': t['id'],
            'first_recorded_pwm': t['epochs'][0]['hist'][0]['pwm'][0]}
    return [t], [pair], meta


def run_C12(tier, seed):
    v = Verdict('C12', tier, seed)
    n = 120 if tier == 'quick' else 2400
    with ProcessPoolExecutor(max_workers=min(16, os.cpu_count() or 4)) as ex:
        res = list(ex.map(_c12_one, [(seed, i) for i in range(n)], chunksize=2))
    res.append(_f4_demo())
    traces = [t for r in res for t in r[0]]
    pairs = [p for r in res for p in r[1]]
    metas = {p['id']: r[2] for r in res for p in r[1]}
    add_mc(v, mc_cached('MC_Solver', 'MC_Solver_quick.cfg' if tier == 'quick' else 'MC_Solver.cfg'),
           'Solver.tla: every schedule of runs / continuations / resets / reruns on the same or a new Solver reproduces the reference trajectory (invariant C12_SplitAndRerun, guarded by the named deviation F4)')
    add_mc(v, mc_cached('MC_Solver', 'MC_Solver_F4.cfg'), 'the same without the F4 guard: TLC must find the design-level counterexample of the known finding', expect_violation='C12_Unguarded')
    tv = validate('Trace_Solver', traces, workers_per_shard=1, shards=16, dfs_queue=True, timeout=7200)
    pv = validate('Trace_Pair', pairs)
    v.states += tv.states + pv.states
    v.transitions += tv.transitions + pv.transitions
    v.traces = len(traces) + len(pairs)
    v.evaluations = len(pairs)
    v.distinct = len(pairs)
    tmeta = {t['id']: t for t in traces}
    for tid, fails in tv.fails.items():
        if fails:
            t = tmeta[tid]
            v.violation({'clauses': fails[:12], 'trace': tid, 'kind': 'single-execution', 'elems': [e['kind'] for e in t['elems']],
                         'ops': [{k: o[k] for k in o if k in ('op', 'sid', 'dt', 'T', 'dt_unit', 'T_unit', 'ctrl', 'outcome', 'first', 'last')} for o in t['ops']]})
    pmeta = {p['id']: p for p in pairs}
    for pid, fails in pv.fails.items():
        if fails:
            p = pmeta[pid]
            src = tmeta.get(metas[pid].get('src'))
            v.violation({'clauses': fails[:12], 'pair': pid, 'kind': p['kind'], 'meta': metas[pid],
                         'elems': [e['kind'] for e in src['elems']] if src else None,
                         'ops': [{k: o[k] for k in o if k in ('op', 'sid', 'dt', 'T', 'dt_unit', 'T_unit', 'ctrl', 'outcome', 'first', 'last')} for o in src['ops']] if src else None,
                         'load': src['load'] if src else None, 'ctrls': src['ctrls'] if src else None})
    kinds = {}
    for p in pairs:
        kinds[p['kind']] = kinds.get(p['kind'], 0) + 1
    v.rule = ('seeded random models (incl. self-locking chains that end a run held, controlled motors, time-dependent loads); even cases: one run of n1+n2 steps vs run n1 then '
              'continue n2 [then n3] with dt/T in other time units - histories must agree (Trace_Pair, close); odd cases: schedule (run [, continue]); reset; re-apply initial conditions; '
              'repeat on the same or a new Solver [; reset; repeat a third time] - every later epoch must be identical to the first sample by sample (exact); every execution is also validated by Trace_Solver')
    v.extra.update(pairs=kinds, single_executions=len(traces))
    v.sample({'pair': pairs[0]['id'], 'mode': pairs[0]['mode'], 'instants': len(pairs[0]['A']['time'])})
    v.sample({'pair': pairs[1]['id'], 'mode': pairs[1]['mode'], 'instants': len(pairs[1]['A']['time']), 'meta': metas[pairs[1]['id']]})
    v.assumptions = ['split vs single: agreement within 1e-6 of the largest magnitude of each series; rerun: identical samples',
                     'schedules in which a call raises are outside the statement and are re-drawn']
    return finish(v, {'F4': _f4})


# ------------------------------------------------------------------ C07: independence from input units
def _c07_one(args):
    seed, i = args
    import_repo()
    rnd = random.Random(seed * 1299709 + i)
    fam = solver_gen_fams[i % len(solver_gen_fams)]
    inst = solver_gen.random_instance(rnd, fam, stable=True)
    inst['free_alpha_unit'] = True           # worm pressure angles too may be given in any unit
    inst['record_snap'] = True               # the snapshot tables (default output units) of both presentations are compared as well
    for o in inst['ops']:
        if o['op'] == 'run' and 'dt_unit' not in o:
            o['dt_unit'] = 'sec'; o['T_unit'] = 'sec'
    out = []
    for tag, r in (('a', None), ('b', random.Random(seed * 31 + i))):
        ops = copy.deepcopy(inst['ops'])
        if r is not None:
            for o in ops:                   # the re-expressed presentation chooses its own time units as well
                if o['op'] == 'run':
                    o['dt_unit'] = r.choice(solver_gen.TIME_UNITS); o['T_unit'] = r.choice(solver_gen.TIME_UNITS)
        try:
            t = solver_rec.execute(f'u{i}{tag}', dict(copy.deepcopy(inst), ops=ops), r)
            t['build'] = 'ok'
        except Exception as e:              # noqa  construction failed: the outcome is what C07 compares
            t = {'id': f'u{i}{tag}', 'build': type(e).__name__, 'epochs': [], 'ops': [], 'elems': [], 'units_used': [], 'msg': str(e)[:200]}
        out.append(t)
    return out, [e['kind'] for e in inst['elems']]


solver_gen_fams = ['plain', 'lock', 'control', 'stop', 'mixed']


def _f5(case):
    return False


def run_C07(tier, seed):
    v = Verdict('C07', tier, seed)
    n = 140 if tier == 'quick' else 3000
    with ProcessPoolExecutor(max_workers=min(16, os.cpu_count() or 4)) as ex:
        res = list(ex.map(_c07_one, [(seed, i) for i in range(n)], chunksize=2))
    singles = [t for r in res for t in r[0] if t['build'] == 'ok']
    tv = validate('Trace_Solver', singles, workers_per_shard=1, shards=16, dfs_queue=True, timeout=7200)
    pairs, meta = [], {}
    used = set()
    for (a, b), kinds in res:
        used |= set(b.get('units_used', []))
        pid = 'p' + a['id'][1:-1]
        meta[pid] = {'elems': kinds, 'a': a, 'b': b}
        if a['build'] != b['build']:
            v.violation({'clauses': ['ConstructionOutcomeDependsOnUnits'], 'pair': pid, 'elems': kinds, 'SI': a['build'], 'reexpressed': b['build'],
                         'message': b.get('msg') or a.get('msg')})
            continue
        if a['build'] != 'ok':
            continue
        outs = lambda t: [o.get('outcome', 'ok') for o in t['ops']]
        lasts = lambda t: [o.get('last', 0) for o in t['ops']]
        unj = bool(tv.notes.get(a['id']) or tv.notes.get(b['id']))
        if outs(a) != outs(b) or lasts(a) != lasts(b) or len(a['epochs']) != len(b['epochs']):
            if unj:
                v.extra['unjudged_pairs'] = v.extra.get('unjudged_pairs', 0) + 1
            else:
                v.violation({'clauses': ['OutcomeOrStopInstantDependsOnUnits'], 'pair': pid, 'elems': kinds,
                             'SI': list(zip(outs(a), lasts(a))), 'reexpressed': list(zip(outs(b), lasts(b))),
                             'ops': [{k: o[k] for k in o if k in ('op', 'dt', 'T', 'dt_unit', 'T_unit', 'ctrl', 'stop', 'outcome', 'first', 'last')} for o in b['ops']]})
            continue
        def with_snap(ep):
            # the snapshot table read after the epoch joins the element's series (two samples per column: last instant, between the last two)
            sn = ep.get('snap') or []
            ep2 = {k: ep[k] for k in ep if k != 'snap'}
            ep2['hist'] = [dict(h, **(sn[i] if i < len(sn) else {})) for i, h in enumerate(ep['hist'])]
            return ep2
        for e in range(len(a['epochs'])):
            pairs.append({'id': f'{pid}e{e}', 'kind': 'units', 'mode': 'close', 'A': with_snap(a['epochs'][e]), 'B': with_snap(b['epochs'][e]), 'outA': 'ok', 'outB': 'ok',
                          'unjudged': unj})
    pv = validate('Trace_Pair', pairs)
    v.states = tv.states + pv.states
    v.transitions = tv.transitions + pv.transitions
    v.traces = len(singles) + len(pairs)
    v.evaluations = len(res)
    v.distinct = len(res)
    smeta = {t['id']: t for t in singles}
    for tid, fails in tv.fails.items():
        if fails and tid.endswith('b'):      # the SI presentation failing on its own is the other properties' business
            t = smeta[tid]
            if not tv.fails.get(tid[:-1] + 'a'):
                v.violation({'clauses': ['ReexpressedExecutionNotABehaviour'] + fails[:8], 'trace': tid, 'elems': [e['kind'] for e in t['elems']],
                             'ops': [{k: o[k] for k in o if k in ('op', 'dt', 'T', 'dt_unit', 'T_unit', 'ctrl', 'stop', 'outcome', 'first', 'last')} for o in t['ops']]})
    pm = {p['id']: p for p in pairs}
    for pid, fails in pv.fails.items():
        if fails:
            if pm[pid]['unjudged']:
                v.extra['unjudged_pairs'] = v.extra.get('unjudged_pairs', 0) + 1
                continue
            base = pid[:pid.rindex('e')]
            b = meta[base]['b']
            v.violation({'clauses': fails[:12], 'pair': pid, 'elems': meta[base]['elems'],
                         'ops': [{k: o[k] for k in o if k in ('op', 'dt', 'T', 'dt_unit', 'T_unit', 'ctrl', 'stop', 'outcome', 'first', 'last')} for o in b['ops']]})
    cover = {}
    for ku in used:
        k, u = ku.split(':', 1)
        cover.setdefault(k, set()).add(u)
    input_kinds = ['InertiaMoment', 'AngularSpeed', 'Torque', 'Current', 'Length', 'Stress', 'Angle', 'AngularPosition', 'TimeInterval', 'Time']
    v.extra['unit_coverage'] = {k: {'used': sorted(cover.get(k, [])), 'all': spectab.units_of(k), 'complete': set(cover.get(k, [])) == set(spectab.units_of(k))}
                                for k in input_kinds}
    v.rule = ('each seeded random model + schedule (chains, loads, rules, stop conditions, continuation, reset) is executed twice: every input quantity in its SI unit, and every input quantity '
              '(component parameters incl. worm pressure angles, initial conditions, dt, T, timer start/duration, rule targets, sensor thresholds, load-function return) in a randomly chosen unit of its kind; '
              'construction outcome, per-call outcomes, stop instants and all recorded histories must agree (Trace_Pair, 1e-6 of each series\' magnitude); the re-expressed execution must itself be a '
              'behaviour of Trace_Solver; pairs containing a decision within rounding distance of its threshold are counted as unjudged')
    ok = [p for p in pairs][:2]
    for p in ok:
        v.sample({'pair': p['id'], 'instants': len(p['A']['time']), 'elems': meta[p['id'][:p['id'].rindex('e')]]['elems']})
    if not ok:
        v.sample({'note': 'no comparable pair this run'})
    v.assumptions = ['agreement within 1e-6 of the largest magnitude of each series (rounding of re-expressed inputs is amplified by the dynamics, never by more)',
                     'the unit lists of the input kinds are covered across the campaign (see unit_coverage)']
    return finish(v, {'F5': _f5})
