"""Constructor / setter validation grid (C19 second sentence): Trace_Ctor.tla decides."""
from __future__ import annotations
import math
from .core import import_repo, rstr
from .units_drv import outcome


def _o(fn):
    _, err = outcome(fn)
    return 'ok' if err is None else err


def gen_events(tier, rnd):
    import_repo()
    from gearpy.mechanical_objects import DCMotor, SpurGear, HelicalGear, WormGear, WormWheel
    from gearpy.units import AngularSpeed, Torque, Current, InertiaMoment, Length, Stress, Angle
    J = InertiaMoment(1, 'kgm^2')
    evs = []
    n = [0]

    def add(cls, out, **params):
        n[0] += 1
        e = {'id': f'c{n[0]}', 'cls': cls, 'out': out, 'v': '0', 'before': '0', 'after': '0'}
        e.update(params)
        evs.append(e)
    N = 'null'
    # ---- DCMotor
    grid_w0 = [-3.0, 0.0, 1e-300, 2.5, 1000.0]
    grid_T = [-1.0, 0.0, 5e-324, 0.01]
    for w0 in grid_w0:
        for T in grid_T:
            add('DCMotor', _o(lambda: DCMotor('m', J, AngularSpeed(w0, 'rad/s'), Torque(T, 'Nm'))),
                w0=rstr(w0), Tmax=rstr(T), i0=N, imax=N)
    cur = [(-0.1, 2.0), (0.0, 2.0), (0.1, 2.0), (2.0, 2.0), (2.0, 1.0), (0.1, 0.0), (0.1, -1.0), (1.9999999, 2.0), (0.0, 0.0), (-1.0, -2.0)]
    for _ in range(4 if tier == 'quick' else 60):
        cur.append((rnd.uniform(-1, 3), rnd.uniform(-1, 3)))
    for i0, imax in cur:
        add('DCMotor', _o(lambda: DCMotor('m', J, AngularSpeed(100, 'rad/s'), Torque(1, 'Nm'), Current(i0, 'A'), Current(imax, 'A'))),
            w0='100', Tmax='1', i0=rstr(i0), imax=rstr(imax))
        add('DCMotor', _o(lambda: DCMotor('m', J, AngularSpeed(100, 'rad/s'), Torque(1, 'Nm'), Current(i0 * 1000, 'mA'), Current(imax, 'A'))),
            w0='100', Tmax='1', i0=rstr(i0 * 1000 / 1000) if False else rstr(float(i0 * 1000) / 1000), imax=rstr(imax))
    for i0 in (-0.1, 0.0, 0.3):
        add('DCMotor', _o(lambda: DCMotor('m', J, AngularSpeed(100, 'rad/s'), Torque(1, 'Nm'), no_load_electric_current=Current(i0, 'A'))),
            w0='100', Tmax='1', i0=rstr(i0), imax=N)
    for imax in (-0.1, 0.0, 0.3):
        add('DCMotor', _o(lambda: DCMotor('m', J, AngularSpeed(100, 'rad/s'), Torque(1, 'Nm'), maximum_electric_current=Current(imax, 'A'))),
            w0='100', Tmax='1', i0=N, imax=rstr(imax))
    # ---- gears
    for teeth in (-5, 0, 1, 9, 10, 11, 500, 1000):
        for E in (None, -2.0, 0.0, 1e-300, 210e9):
            Eq = None if E is None else Stress(E, 'Pa')
            add('SpurGear', _o(lambda: SpurGear('g', teeth, J, module=Length(1, 'mm'), face_width=Length(5, 'mm'), elastic_modulus=Eq)),
                teeth=teeth, E=N if E is None else rstr(E))
            add('HelicalGear', _o(lambda: HelicalGear('g', teeth, J, Angle(20, 'deg'), module=Length(1, 'mm'), face_width=Length(5, 'mm'), elastic_modulus=Eq)),
                teeth=teeth, E=N if E is None else rstr(E), helix=rstr(math.radians(20)))
    hel = [0.0, 10.0, 45.0, 89.0, 89.999, 90.0, 90.001, 120.0, 180.0, 359.0, 360.0, 365.0, 400.0, 449.9, 450.0, 749.5, 3610.0]     # (beyond one turn too)
    for h in hel:
        a = Angle(h, 'deg')
        add('HelicalGear', _o(lambda: HelicalGear('g', 20, J, a)), teeth=20, E=N, helix=rstr(a.to('rad').value))
        r = Angle(math.radians(h), 'rad')
        add('HelicalGear', _o(lambda: HelicalGear('g', 20, J, r)), teeth=20, E=N, helix=rstr(r.value))
    # ---- worm gear / wheel: each pressure angle, helix on both sides of its limit; unavailable pressure angles
    limits = {14.5: 16, 20: 25, 25: 35, 30: 45}
    alphas = [14.5, 20, 25, 30, 0.0, 15, 22.5, 35, 14.4999, 30.01]
    for al in alphas:
        lim = limits.get(al, 25)
        for h in (0.5, lim - 1, lim - 1e-3, lim + 1e-3, lim + 1, 60, 89, 91):
            A, H = Angle(al, 'deg'), Angle(h, 'deg')
            add('WormGear', _o(lambda: WormGear('w', 2, J, H, A)), starts=2, helix=rstr(H.to('rad').value), alpha=rstr(A.to('rad').value))
            add('WormWheel', _o(lambda: WormWheel('w', 30, J, H, A)), teeth=30, helix=rstr(H.to('rad').value), alpha=rstr(A.to('rad').value))
    # the same limits with the helix angle given in every other angle unit (the limit is tabulated in degrees)
    import math as _m
    for al, lim in limits.items():
        for h in (lim - 2, lim - 0.01, lim + 0.01, lim + 3, 0.4):
            for unit, val in (('rad', _m.radians(h)), ('rot', h / 360), ('arcmin', h * 60), ('arcsec', h * 3600)):
                A, H = Angle(al, 'deg'), Angle(val, unit)
                add('WormGear', _o(lambda: WormGear('w', 2, J, H, A)), starts=2, helix=rstr(H.to('rad').value), alpha=rstr(A.to('rad').value))
                add('WormWheel', _o(lambda: WormWheel('w', 30, J, H, A)), teeth=30, helix=rstr(H.to('rad').value), alpha=rstr(A.to('rad').value))
    # ... and with the PRESSURE angle given in every other angle unit, as a literal and as a converted degree value (the table key
    # is found by quantity comparison; 14.5 deg re-expressed in rad comes back as 14.500000000000002 deg)
    for al, lim in limits.items():
        for unit, val in (('rad', _m.radians(al)), ('rot', al / 360), ('arcmin', al * 60), ('arcsec', al * 3600), ('conv', None)):
            for cu in (['rad', 'rot', 'arcmin', 'arcsec'] if unit == 'conv' else [unit]):
                A = Angle(al, 'deg').to(cu) if unit == 'conv' else Angle(val, unit)
                for h in (lim - 2, lim - 0.01, lim + 0.01, lim + 3, lim + 8, 0.4):
                    H = Angle(h, 'deg')
                    add('WormGear', _o(lambda: WormGear('w', 2, J, H, A)), starts=2, helix=rstr(H.to('rad').value), alpha=rstr(A.to('rad').value))
                    add('WormWheel', _o(lambda: WormWheel('w', 30, J, H, A)), teeth=30, helix=rstr(H.to('rad').value), alpha=rstr(A.to('rad').value))
    for h in (45.0, 89.9, 90.1, 135.0, 365.0, 401.0, 765.0):
        for unit, val in (('rad', _m.radians(h)), ('rot', h / 360), ('arcmin', h * 60), ('arcsec', h * 3600)):
            a = Angle(val, unit)
            add('HelicalGear', _o(lambda: HelicalGear('g', 20, J, a)), teeth=20, E=N, helix=rstr(a.to('rad').value))
    for starts in (-1, 0, 1, 4):
        A, H = Angle(20, 'deg'), Angle(10, 'deg')
        add('WormGear', _o(lambda: WormGear('w', starts, J, H, A)), starts=starts, helix=rstr(H.to('rad').value), alpha=rstr(A.to('rad').value))
    for teeth in (5, 9, 10, 40):
        A, H = Angle(20, 'deg'), Angle(10, 'deg')
        add('WormWheel', _o(lambda: WormWheel('w', teeth, J, H, A)), teeth=teeth, helix=rstr(H.to('rad').value), alpha=rstr(A.to('rad').value))
    # ---- duty cycle setter
    m = DCMotor('m', J, AngularSpeed(100, 'rad/s'), Torque(1, 'Nm'))
    vals = [0, 1, -1, 0.5, -0.999, 1.0000001, -1.0000001, 2, -7.5, 1e300, 5e-324, math.nextafter(1.0, 2.0), math.nextafter(-1.0, -2.0)]
    for _ in range(5 if tier == 'quick' else 100):
        vals.append(rnd.uniform(-2, 2))
    for x in vals:
        before = m.pwm
        def setp():
            m.pwm = x
        out = _o(setp)
        add('pwm', out, v=rstr(x), before=rstr(before), after=rstr(m.pwm))
    return evs
