"""Calls recorded from the repository's OWN unit tests (tests/test_units), see repo_units_plugin.py.  Run once per
(sources, tier, seed) and shared by C05 (rto / rcmp events, Trace_Units) and C06 (binop events, Trace_Quantity)."""
from __future__ import annotations
import fcntl, glob, hashlib, json, os, shutil, subprocess, sys, tempfile
from .core import REPO, VERIF, repo_hash


def _plugin_hash():
    h = hashlib.sha256()
    for f in ('repo_units_plugin.py', 'repo_units.py'):
        h.update(open(os.path.join(VERIF, 'harness', f), 'rb').read())
    return h.hexdigest()[:10]


def events(tier, seed):
    """-> {'events': [...], 'pytest_tail': str, 'wall_s': float}; nothing recorded (empty list) when the tests cannot run"""
    import time
    key = f'repounits-{repo_hash()}-{_plugin_hash()}-{tier}-{seed}'
    cdir = os.path.join(VERIF, '.cache')
    os.makedirs(cdir, exist_ok=True)
    cp = os.path.join(cdir, key + '.json')
    with open(os.path.join(cdir, key + '.lock'), 'w') as lf:
        fcntl.flock(lf, fcntl.LOCK_EX)
        if os.path.exists(cp):
            return json.load(open(cp))
        t0 = time.time()
        tmp = tempfile.mkdtemp(prefix='verif-repounits-')
        out = os.path.join(tmp, 'ev')
        env = dict(os.environ, VERIF_REPO_UNITS_OUT=out, VERIF_REPO_UNITS_PER_BUCKET='1' if tier == 'quick' else '6',
                   PYTHONPATH=VERIF + os.pathsep + os.environ.get('PYTHONPATH', ''), PYTHONHASHSEED='0', PYTHONDONTWRITEBYTECODE='1',
                   HYPOTHESIS_STORAGE_DIRECTORY=os.path.join(tmp, 'hyp'))           # nothing is written into the repository
        tail = ''
        try:
            p = subprocess.run([sys.executable, '-m', 'pytest', '-q', '-p', 'no:cacheprovider', '-p', 'harness.repo_units_plugin', f'--hypothesis-seed={seed % 2**31}',
                                '-n', '8', '--dist', 'loadfile', 'tests/test_units', '-W', 'ignore'],
                               cwd=REPO, env=env, capture_output=True, text=True, timeout=3600)
            tail = (p.stdout or '').strip().splitlines()[-1:] and (p.stdout or '').strip().splitlines()[-1]
            evs = []
            for f in sorted(glob.glob(out + '.*')):
                evs += [json.loads(l) for l in open(f)]
        except subprocess.TimeoutExpired:
            evs, tail = [], 'timeout'
        finally:
            shutil.rmtree(tmp, ignore_errors=True)
        # one event per bucket over ALL workers (each worker kept its own buckets), deterministic order
        seen, keep = {}, []
        cap = 1 if tier == 'quick' else 6
        for e in sorted(evs, key=lambda e: e['id']):
            if e['ev'] == 'rto':
                b = ('rto', e['kind'], e['u1'], e['u2'], e['inplace'])
            elif e['ev'] == 'rcmp':
                b = ('rcmp', e['op'], e['k1'], e['u1'], e['k2'], e['u2'])
            else:
                b = ('binop', e['op'], e['a']['kind'], e['a']['unit'], e['b']['kind'], e['b']['unit'])
            if seen.get(b, 0) < cap:
                seen[b] = seen.get(b, 0) + 1
                keep.append(e)
        res = {'events': keep, 'pytest_tail': tail, 'wall_s': round(time.time() - t0, 1), 'recorded': len(evs)}
        t = cp + f'.{os.getpid()}'
        json.dump(res, open(t, 'w'))
        os.replace(t, cp)
        return res
