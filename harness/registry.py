from __future__ import annotations
from .core import Machinery


def run(pid: str, tier: str, seed: int, replay: str | None) -> int:
    if pid == 'C05':
        from . import units_drv
        return units_drv.run(tier, seed)
    if pid == 'C06':
        from . import quantity_drv
        return quantity_drv.run_C06(tier, seed)
    if pid == 'C19':
        from . import quantity_drv
        return quantity_drv.run_C19(tier, seed)
    if pid == 'C08':
        from . import motor_drv
        return motor_drv.run_C08(tier, seed)
    if pid == 'C09':
        from . import gear_drv
        return gear_drv.run_C09(tier, seed)
    if pid in ('C10', 'C20'):
        from . import relations_drv
        return getattr(relations_drv, 'run_' + pid)(tier, seed)
    raise Machinery(f'no check registered for {pid}')
