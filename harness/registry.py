from __future__ import annotations
from .core import Machinery


SOLVER_TEXT = {
    'C01': 'clauses CoupledPos/Spd/Acc@i: at every recorded instant, for every adjacent pair, upstream = ratio x downstream with the ratio recomputed from teeth/starts',
    'C02': 'clauses DriveMotor, DriveDown@i, LoadFunction, LoadUp@i, NetTorque@i at every recorded instant',
    'C11': 'clauses GridInstant (k-th instant = start + k dt), GridNotBeyondT, GridCount (exactly round(T/dt) further instants), GridPrefixWithStop; fresh and continued runs, dt and T in any of the four time units',
    'C13': 'clauses LockSignSafe (recorded motor speed never opposite to the duty cycle in force), HeldSpeedZero/HeldAccZero@i, HeldPosConstant, ClampWithoutSelfLocking; the lock bit is an unlogged spec variable chosen by SolverOps!LockSet',
    'C14': 'clauses ArbDutyCycle (= clip of the single proposal, or 1), ArbConflictMustRaise, ArbErrorOnlyOnConflict, ArbRecordedDutyCycle, PwmRange, PwmUnchangedWithoutControl; proposals logged by harness-owned TracedRule wrappers, incl. scripted rules proposing values far outside [-1,1]',
    'C15': 'clauses RuleValue@idx: every logged proposal of ConstantPWM / ReachAngularPosition / StartProportionalToAngularPosition / StartLimitCurrent (checked through its quadratic) against Control.tla at the logged state, also at the instant a run aborted',
    'C16': 'clauses StopCheckedOncePerInstant, StopReadsRecordedValue, StopAtFirstHit, StopOnlyWhenTrue, StopNotCheckedAtInitialInstant; sensor reads logged by a harness-owned TracedSensor',
    'C17': 'clauses RectOneSamplePerInstant, RectAdvertisedIsRecorded, RectKinds, LiveEqualsLastSample, Reset* after every run / reset of every schedule',
    'C03': 'clauses AccFromNetTorque (equivalent inertia by the documented reduction), IntegratePos/IntegrateSpd between consecutive instants (dt from the recorded axis), InitialPos/Spd',
}


def run(pid: str, tier: str, seed: int, replay: str | None) -> int:
    if replay:
        # a replay file records (property, tier, seed) and the failing cases; every campaign is a deterministic function of
        # (sources, tier, seed), so replaying = running the same campaign again and showing the recorded cases for comparison
        import json
        d = json.load(open(replay))
        print(f"replaying {replay}: property={d['property']} tier={d['tier']} seed={d['seed']} recorded_cases={len(d['cases'])}")
        for c in d['cases'][:3]:
            print('  recorded:', json.dumps(c, default=str)[:400])
        return run(d['property'], d['tier'], int(d['seed']), None)
    if pid == 'C05':
        from . import units_drv
        return units_drv.run(tier, seed)
    if pid == 'C06':
        from . import quantity_drv
        return quantity_drv.run_C06(tier, seed)
    if pid == 'C19':
        from . import quantity_drv
        return quantity_drv.run_C19(tier, seed)
    if pid == 'C08':
        from . import motor_drv
        return motor_drv.run_C08(tier, seed)
    if pid == 'C09':
        from . import gear_drv
        return gear_drv.run_C09(tier, seed)
    if pid in ('C10', 'C20'):
        from . import relations_drv
        return getattr(relations_drv, 'run_' + pid)(tier, seed)
    if pid in SOLVER_TEXT:
        from . import solver_drv
        return solver_drv.run_prop(pid, tier, seed, SOLVER_TEXT[pid], None)
    if pid == 'C07':
        from . import pair_drv
        return pair_drv.run_C07(tier, seed)
    if pid == 'C18':
        from . import snapshot_drv
        return snapshot_drv.run_C18(tier, seed)
    if pid == 'C04':
        from . import closed_drv
        return closed_drv.run_C04(tier, seed)
    if pid == 'C12':
        from . import pair_drv
        return pair_drv.run_C12(tier, seed)
    raise Machinery(f'no check registered for {pid}')
