"""Regenerates /verif/MANIFEST.json from the list of checks that are actually registered."""
import json, os, sys
VERIF = os.path.dirname(os.path.dirname(os.path.abspath(__file__)))

TB = ('TLC 1.8; BigRat Java override (cross-checked against a pure-TLA+ reference by spec/RatLaws.tla at setup); '
      'CommunityModules Json/IOUtils; the Python recorder only copies observed values (exact binary value of every float) - '
      'every accept/reject decision is a TLA+ expression evaluated by TLC')

CHECKS = {
 'C05': dict(
   technique='TLA+ unit table derived from SI base definitions (Units.tla, sanity model-checked) + TLC trace validation of recorded conversions/comparisons (Trace_Units.tla)',
   text=('Units.tla derives every unit factor from SI base definitions (compound names are built from their parts); TLC checks the table\'s own laws '
         'and exports it; the harness drives the real quantity classes over ALL ordered unit pairs of all 13 kinds x a value grid and over comparison '
         'pairs (same magnitude re-expressed / clearly different / zero), records each call, and TLC decides every record against Units!Conv and '
         'Units!CmpClass in exact rational arithmetic. The unit-pair space is exhausted; the value axis is sampled.'),
   ref='DESIGN.md section 4 C05, section 3.1',
   note=TB + '; values limited to 1e-150..1e150; comparisons are not judged inside the rounding band (1e-15 .. 1e-9 relative).'),

 'C06': dict(
   technique='TLA+ dimensional algebra (Units!Dictated, QuantityOps!AllowedBin) model-checked on the design heap machine + TLC trace validation of every recorded binary operation (Trace_Quantity.tla)',
   text=('QuantityOps.tla states, for every ordered pair of (13 kinds + number) and each of + - * /, the set of allowed outcomes (result kind from dimension vectors, exact SI magnitude, '
         'TypeError / ValueError / ZeroDivisionError where justified). MC_Quantity explores the design heap machine (all programs of 2 constructs + 1 operation over a small value set; invariants '
         'ResultExact, InverseLaws, HeapValid). The harness enumerates ALL kind pairs x operators (x unit pairs) on the real classes and TLC decides each recorded outcome and the two inverse laws; straight-line programs add operands with a history (converted in place; copies handed out by to() spoiled in place before the source is used).'),
   ref='DESIGN.md section 4 C06, section 3.2',
   note=TB + '; TypeError is accepted for any combination the documentation does not name (Units!MustReturn lists those that must return).'),
 'C19': dict(
   technique='TLA+ quantity heap state machine (Quantity.tla) model-checked + TLC trace validation of straight-line programs with all live objects re-read after every step (Trace_Quantity.tla) + constructor constraints (Components.tla / Trace_Ctor.tla)',
   text=('Quantity.tla is the heap-of-quantities state machine (construct, + - * /, neg, abs, to, to in place; raising actions leave the heap unchanged); TLC checks HeapValid and RaiseKeepsHeap on the design. '
         'Programs (boundary-shaped and seeded random, magnitudes down to denormals) are executed on the real classes; after every step every live object is re-read and TLC validates outcome, '
         'heap change and validity of every live object against the spec. Component-constructor constraints are validated the same way on a boundary grid.'),
   ref='DESIGN.md section 4 C19, section 3.2',
   note=TB + '; non-finite (overflowed) results are counted as unjudged; ValueError is accepted when a sign-constrained result underflows.'),

 'C08': dict(
   technique='TLA+ motor characteristic (Motor.tla) with its documented consequences model-checked on a rational grid + TLC trace validation of recorded compute_torque / compute_electric_current calls (Trace_Motor.tla)',
   text=('Motor.tla transcribes the documented torque and current laws; TLC checks their stated consequences (standstill, no-load point, continuity across the dead-zone boundary, oddness) exactly on a grid. '
         'The harness drives real DCMotor objects (constants in random units) over duty cycles including the dead-zone boundary as decimal and float quotient and its +-1,+-2 ulp neighbours, '
         'and speeds beyond no-load speed, revisit sequences on one motor object, the driving torque handed back through the setter in another unit, constants of a built motor re-expressed in place; TLC decides every recorded output against the spec in exact arithmetic; neither call may raise. The recorded motor current of every instant of the shared solver campaign is judged by the same law (SolverOps!CurrentFails).'),
   ref='DESIGN.md section 4 C08, section 3.3',
   note=TB + '; the branch taken within 1e-10 relative of the dead-zone boundary is not judged (value still is).'),
 'C09': dict(
   technique='TLA+ gear formulas and flags (Gear.tla; Lewis table, virtual teeth, squared Hertz stress; lemmas model-checked) + TLC trace validation of real gear objects over the complete flag space (Trace_Gear.tla)',
   text=('Gear.tla states the Lewis interpolation, virtual teeth number, tangential force per role, bending stress (incl. worm-wheel form) and squared Hertz stress with helix angles as rational functions of tan(beta/2); '
         'TLC checks lemmas (beta=0 reduces to spur, interpolation through the table, monotone, clamped). The harness builds real gears for every teeth number 10..520, every subset of optional data x roles x mated/unmated '
         '(complete finite flag space), compute / re-mate / compute sequences, parameters re-expressed in place between computations, and seeded random parameters in random units; TLC decides flags, ValueError contract and every value. The recorded force / bending / contact stress of every gear at every instant of the shared solver campaign is judged by the same formulas (SolverOps!StressFails).'),
   ref='DESIGN.md section 4 C09, section 3.4',
   note=TB + '; tan(beta/2) is computed with math.tan from the angle the object holds; tan 20 deg and pi are 50-digit rationals; the worm thread force is modelled as implemented (O4).'),

 'C10': dict(
   technique='TLA+ relation-declaration state machine (Relations.tla / MC_Relations.tla) model-checked over an exact object universe, call sequences replayed on real objects, every execution validated by TLC (Trace_Relations.tla)',
   text=('Relations.tla makes every declaration call one atomic action with an accept/reject outcome set written from the documentation (ratio, efficiency incl. the worm friction formulas, self-locking criterion, validation); '
         'TLC checks RelSane, RejectKeeps (a rejected call leaves the state unchanged), MutualAtCall on all call sequences of the bounded model and exports them; the harness replays every sequence on fresh real objects and '
         'adds seeded random universes with real-valued parameters in random units; after EVERY call (accepted or raising) all public relation attributes of all objects are re-read and TLC validates them against the spec state.'),
   ref='DESIGN.md section 4 C10, section 3.5',
   note=TB + '; any applicable error class is accepted when several reasons for rejection apply; thresholds are not judged inside the rounding band.'),
 'C20': dict(
   technique='TLA+ Assemble action of Relations.tla (chain reachable from the motor, duplicate names, self-locking flag, immutability as an action property) model-checked + replay/trace validation with every powertrain re-read after every later call',
   text=('Assemble is an action of the same state machine: TLC checks AssembledIsChain and PtImmutable on all explored call sequences incl. re-declared relations that re-route the chain; '
         'the harness assembles real Powertrains at arbitrary points of TLC-enumerated and random sequences (chains of 2..12 elements, duplicate names), re-reads elements / self_locking of every earlier powertrain after every '
         'later call, attempts assignment, and TLC validates all of it against Relations!Assemble.'),
   ref='DESIGN.md section 4 C20, section 3.5',
   note=TB + '; drives-cycles (on which Powertrain() does not terminate, observation O1) are guarded off in the model and skipped in the harness.'),

 'C01': dict(
   technique='TLA+ step relation SolverOps!CoupledFails (ratios recomputed from declared teeth/starts) evaluated by TLC on every recorded instant of real simulations (Trace_Solver.tla)',
   text="SolverOps.tla states the coupling relation for every adjacent pair with the ratio recomputed from the declared relation; TLC validates it in exact arithmetic on every recorded instant of every traced execution, including instants where the powertrain is held, after continuation, early stop and reset. Design level: Solver.tla (the simulation as a state machine over exact instances, all schedules of new solver / run / continue / reset / rerun; its invariants are these very clauses with eps = 0; it refines the finite sign abstraction LockAbs). Code level, one shared campaign: seeded random chains of 2..12 elements (loads of position / speed / time, rule sets, stop conditions, continuation with another dt and unit, reset / rerun, relations declared in any order, superseded and re-declared on a live model, friction sweeps, idler pairs, double worm stages, further external torques on intermediate gears, user-set duty cycle and re-indexed output between runs, numpy-valued loads; half with every input in a random unit), crafted lock / stop / re-declaration scenarios, exact (dyadic) instances judged AT their thresholds, and executions of the repository's own solver test recorded by a pytest plugin; every recorded instant is one TLC state of Trace_Solver.tla, the solver's private lock bit is an unlogged spec variable.",
   ref='DESIGN.md section 4 C01, 3.7',
   note=TB + '; decisions within 1e-9 relative of their threshold are not judged (the trace spec branches); instances are seeded random, not exhaustive.'),
 'C02': dict(
   technique='TLA+ step relation SolverOps!TorqueFails (motor law from Motor.tla, efficiencies recomputed from declared efficiency / worm friction formula, harness-owned load function evaluated exactly) checked by TLC on every recorded instant',
   text="Driving torque of the motor from Motor.tla at the recorded speed and duty cycle, propagation with efficiency x ratio, load function evaluated at this instant's recorded time/position/speed, upstream load propagation and net torque, each as a named clause evaluated by TLC on every recorded instant. Design level: Solver.tla (the simulation as a state machine over exact instances, all schedules of new solver / run / continue / reset / rerun; its invariants are these very clauses with eps = 0; it refines the finite sign abstraction LockAbs). Code level, one shared campaign: seeded random chains of 2..12 elements (loads of position / speed / time, rule sets, stop conditions, continuation with another dt and unit, reset / rerun, relations declared in any order, superseded and re-declared on a live model, friction sweeps, idler pairs, double worm stages, further external torques on intermediate gears, user-set duty cycle and re-indexed output between runs, numpy-valued loads; half with every input in a random unit), crafted lock / stop / re-declaration scenarios, exact (dyadic) instances judged AT their thresholds, and executions of the repository's own solver test recorded by a pytest plugin; every recorded instant is one TLC state of Trace_Solver.tla, the solver's private lock bit is an unlogged spec variable.",
   ref='DESIGN.md section 4 C02, 3.7',
   note=TB + '; decisions within 1e-9 relative of their threshold are not judged (the trace spec branches); instances are seeded random, not exhaustive.'),
 'C03': dict(
   technique='TLA+ step relation SolverOps!DynFails/StepFails (equivalent inertia by the documented reduction; speed-then-position update anchored on the previous recorded instant, dt from the recorded axis) checked by TLC for every pair of consecutive instants',
   text="One-step validation: each recorded instant is checked against the previous recorded one (no error accumulation), with the held/not-held hypothesis supplied by the spec's lock machine. Design level: Solver.tla (the simulation as a state machine over exact instances, all schedules of new solver / run / continue / reset / rerun; its invariants are these very clauses with eps = 0; it refines the finite sign abstraction LockAbs). Code level, one shared campaign: seeded random chains of 2..12 elements (loads of position / speed / time, rule sets, stop conditions, continuation with another dt and unit, reset / rerun, relations declared in any order, superseded and re-declared on a live model, friction sweeps, idler pairs, double worm stages, further external torques on intermediate gears, user-set duty cycle and re-indexed output between runs, numpy-valued loads; half with every input in a random unit), crafted lock / stop / re-declaration scenarios, exact (dyadic) instances judged AT their thresholds, and executions of the repository's own solver test recorded by a pytest plugin; every recorded instant is one TLC state of Trace_Solver.tla, the solver's private lock bit is an unlogged spec variable.",
   ref='DESIGN.md section 4 C03, 3.7',
   note=TB + '; decisions within 1e-9 relative of their threshold are not judged (the trace spec branches); instances are seeded random, not exhaustive.'),
 'C11': dict(
   technique='TLA+ grid relation Trace_Solver!GridFails/RunEndFails checked by TLC on every run of every traced schedule (fresh, continued in other time units, stopped early)',
   text="Every recorded instant must equal start + k dt, none may lie beyond T, a run without stop condition records exactly round(T/dt) further instants, with a stop condition a prefix. Design level: Solver.tla (the simulation as a state machine over exact instances, all schedules of new solver / run / continue / reset / rerun; its invariants are these very clauses with eps = 0; it refines the finite sign abstraction LockAbs). Code level, one shared campaign: seeded random chains of 2..12 elements (loads of position / speed / time, rule sets, stop conditions, continuation with another dt and unit, reset / rerun, relations declared in any order, superseded and re-declared on a live model, friction sweeps, idler pairs, double worm stages, further external torques on intermediate gears, user-set duty cycle and re-indexed output between runs, numpy-valued loads; half with every input in a random unit), crafted lock / stop / re-declaration scenarios, exact (dyadic) instances judged AT their thresholds, and executions of the repository's own solver test recorded by a pytest plugin; every recorded instant is one TLC state of Trace_Solver.tla, the solver's private lock bit is an unlogged spec variable.",
   ref='DESIGN.md section 4 C11',
   note=TB + '; decisions within 1e-9 relative of their threshold are not judged (the trace spec branches); instances are seeded random, not exhaustive.'),
 'C13': dict(
   technique='TLA+ lock machine SolverOps!LockSet/LockBranch with the lock bit as an UNLOGGED trace-spec variable; TLC confirms it from its observable consequences at every instant (SignSafe, Held*, ClampWithoutSelfLocking)',
   text="Whether the chain is self-locking is decided by the specification from the declared worm matings (the implementation's flag is a judged observation). The spec predicts the lock bit from the duty cycle in force, the advanced motor speed and the motor net torque of the previous instant; the recorded instant must be explained by one of the predicted values; the stated sign invariant is checked directly on recorded speeds. Design level: Solver.tla (the simulation as a state machine over exact instances, all schedules of new solver / run / continue / reset / rerun; its invariants are these very clauses with eps = 0; it refines the finite sign abstraction LockAbs). Code level, one shared campaign: seeded random chains of 2..12 elements (loads of position / speed / time, rule sets, stop conditions, continuation with another dt and unit, reset / rerun, relations declared in any order, superseded and re-declared on a live model, friction sweeps, idler pairs, double worm stages, further external torques on intermediate gears, user-set duty cycle and re-indexed output between runs, numpy-valued loads; half with every input in a random unit), crafted lock / stop / re-declaration scenarios, exact (dyadic) instances judged AT their thresholds, and executions of the repository's own solver test recorded by a pytest plugin; every recorded instant is one TLC state of Trace_Solver.tla, the solver's private lock bit is an unlogged spec variable.",
   ref='DESIGN.md section 4 C13',
   note=TB + '; decisions within 1e-9 relative of their threshold are not judged (the trace spec branches); instances are seeded random, not exhaustive.'),
 'C14': dict(
   technique='TLA+ arbitration Control!Arbitrate (lemmas model-checked in MC_Control) + TLC validation of every logged control phase (proposals of every rule, resulting duty cycle, conflict error) in whole simulations',
   text="Harness-owned TracedRule/TracedPWMControl wrappers log every proposal and the duty cycle after control; TLC checks clip-of-single / default 1 / conflict => ValueError and run stops / every recorded duty cycle in [-1,1]; scripted rules propose values far outside the range and non-applicable. Design level: Solver.tla (the simulation as a state machine over exact instances, all schedules of new solver / run / continue / reset / rerun; its invariants are these very clauses with eps = 0; it refines the finite sign abstraction LockAbs). Code level, one shared campaign: seeded random chains of 2..12 elements (loads of position / speed / time, rule sets, stop conditions, continuation with another dt and unit, reset / rerun, relations declared in any order, superseded and re-declared on a live model, friction sweeps, idler pairs, double worm stages, further external torques on intermediate gears, user-set duty cycle and re-indexed output between runs, numpy-valued loads; half with every input in a random unit), crafted lock / stop / re-declaration scenarios, exact (dyadic) instances judged AT their thresholds, and executions of the repository's own solver test recorded by a pytest plugin; every recorded instant is one TLC state of Trace_Solver.tla, the solver's private lock bit is an unlogged spec variable.",
   ref='DESIGN.md section 4 C14, 3.6',
   note=TB + '; decisions within 1e-9 relative of their threshold are not judged (the trace spec branches); instances are seeded random, not exhaustive.'),
 'C15': dict(
   technique='TLA+ rule definitions Control.tla (timer window, braking start with static error, proportional ramp with minimum duty cycle, StartLimitCurrent through its quadratic; lemma current-law = limit model-checked) + TLC validation of every logged proposal at the logged state',
   text="Every proposal of every built-in rule logged during whole controlled simulations is compared with the documented definition evaluated at the recorded state of that instant (also at the instant a run aborted); window boundaries within rounding distance are not judged. Design level: Solver.tla (the simulation as a state machine over exact instances, all schedules of new solver / run / continue / reset / rerun; its invariants are these very clauses with eps = 0; it refines the finite sign abstraction LockAbs). Code level, one shared campaign: seeded random chains of 2..12 elements (loads of position / speed / time, rule sets, stop conditions, continuation with another dt and unit, reset / rerun, relations declared in any order, superseded and re-declared on a live model, friction sweeps, idler pairs, double worm stages, further external torques on intermediate gears, user-set duty cycle and re-indexed output between runs, numpy-valued loads; half with every input in a random unit), crafted lock / stop / re-declaration scenarios, exact (dyadic) instances judged AT their thresholds, and executions of the repository's own solver test recorded by a pytest plugin; every recorded instant is one TLC state of Trace_Solver.tla, the solver's private lock bit is an unlogged spec variable.",
   ref='DESIGN.md section 4 C15, 3.6',
   note=TB + '; decisions within 1e-9 relative of their threshold are not judged (the trace spec branches); instances are seeded random, not exhaustive.'),
 'C16': dict(
   technique='TLA+ stop relation Trace_Solver!StopFails (verdict recomputed from the recorded series; sensor reads logged by a harness-owned TracedSensor) checked by TLC at every computed instant',
   text="One sensor read per computed instant after the initial one, reading the value recorded at that instant; verdict true => that instant is the last; a run shorter than requested => verdict true at its last instant; a threshold given in another unit than the reading that denotes the same magnitude up to rounding compares equal (C05), in the same unit the comparison is exact. Design level: Solver.tla (the simulation as a state machine over exact instances, all schedules of new solver / run / continue / reset / rerun; its invariants are these very clauses with eps = 0; it refines the finite sign abstraction LockAbs). Code level, one shared campaign: seeded random chains of 2..12 elements (loads of position / speed / time, rule sets, stop conditions, continuation with another dt and unit, reset / rerun, relations declared in any order, superseded and re-declared on a live model, friction sweeps, idler pairs, double worm stages, further external torques on intermediate gears, user-set duty cycle and re-indexed output between runs, numpy-valued loads; half with every input in a random unit), crafted lock / stop / re-declaration scenarios, exact (dyadic) instances judged AT their thresholds, and executions of the repository's own solver test recorded by a pytest plugin; every recorded instant is one TLC state of Trace_Solver.tla, the solver's private lock bit is an unlogged spec variable.",
   ref='DESIGN.md section 4 C16',
   note=TB + '; decisions within 1e-9 relative of their threshold are not judged (the trace spec branches); instances are seeded random, not exhaustive.'),
 'C17': dict(
   technique='TLA+ Gear!Recorded / SolverOps!RecordedKeys vs advertised variables, rectangular histories, kinds, live attribute = last sample, reset semantics; checked by TLC after every run / reset of every traced schedule',
   text="After every run and reset the lengths of all time variables, their kinds, the advertised set against what the spec says is recorded (from the element data and its mating), and live attributes against last samples are validated; after every run that returns, snapshots at the first / last / an intermediate instant and an export of all histories must not raise. Design level: Solver.tla (the simulation as a state machine over exact instances, all schedules of new solver / run / continue / reset / rerun; its invariants are these very clauses with eps = 0; it refines the finite sign abstraction LockAbs). Code level, one shared campaign: seeded random chains of 2..12 elements (loads of position / speed / time, rule sets, stop conditions, continuation with another dt and unit, reset / rerun, relations declared in any order, superseded and re-declared on a live model, friction sweeps, idler pairs, double worm stages, further external torques on intermediate gears, user-set duty cycle and re-indexed output between runs, numpy-valued loads; half with every input in a random unit), crafted lock / stop / re-declaration scenarios, exact (dyadic) instances judged AT their thresholds, and executions of the repository's own solver test recorded by a pytest plugin; every recorded instant is one TLC state of Trace_Solver.tla, the solver's private lock bit is an unlogged spec variable.",
   ref='DESIGN.md section 4 C17',
   note=TB + '; decisions within 1e-9 relative of their threshold are not judged (the trace spec branches); instances are seeded random, not exhaustive.'),

 'C12': dict(
   technique='pairs of recorded executions compared by TLC (Trace_Pair.tla: split vs single within rounding, reset+rerun sample-identical), each execution also a behaviour of Trace_Solver.tla whose lock bit is a spec variable reset by a fresh run',
   text=('For seeded random models (self-locking chains ending a run held, controlled motors, time-dependent loads): one run of n1+n2 steps vs run n1 then continue n2 with dt/T in other time units must give the same axis and histories; '
         'schedule; reset; re-apply initial conditions; repeat on the same or a new Solver must reproduce every sample exactly. Both directions are decided by TLC on the recorded histories; every single execution is additionally '
         'validated instant by instant against the solver step relation (so a hidden state surviving between runs shows up either as a pair mismatch or as an unexplained instant).'),
   ref='DESIGN.md section 4 C12',
   note=TB + '; well-conditioned dynamics only (no spring-like / negative-damping loads) so that "same up to rounding" is decidable; known finding F4 is matched structurally.'),
 'C07': dict(
   technique='every model executed twice (SI units vs every input quantity in a random unit, unit table from Units.tla) and the two recorded executions compared by TLC (Trace_Pair.tla); the re-expressed execution must itself be a behaviour of Trace_Solver.tla',
   text=('The specification is unit-blind (SI rationals); Units.tla generates the presentations. Construction outcome, per-call outcomes, stop instants, all histories and the snapshot tables (default units, at the recorded instants) of the two presentations must agree; '
         'the unit list of every input kind is covered across the campaign (reported), time units of dt / T / continuation are re-chosen per run.'),
   ref='DESIGN.md section 4 C07, 2.3',
   note=TB + '; pairs containing a decision within rounding distance of its threshold (reported by the trace spec as U| lines) are counted as unjudged.'),

 'C04': dict(
   technique='TLA+ closed form (Closed.tla: exponential by a degree-40 Taylor polynomial in exact rationals) - the solver scheme model-checked against it as a state machine (MC_Closed) + TLC validation of real trajectories at four step sizes (Trace_Closed.tla)',
   text=('MC_Closed runs the speed-then-position scheme at dt and dt/2 side by side as a TLC state machine over a family of linear instances and checks, at every instant, the bound proportional to dt and, at the final time, the halving ratio - '
         'a checked statement about the design. The real solver is then run on seeded random linear instances at k dt = 0.2, 0.1, 0.05, 0.025 over four time constants and TLC evaluates the same bounds and ratios on the recorded floats in exact arithmetic.'),
   ref='DESIGN.md section 4 C04',
   note=TB + '; the enumerated family and step sizes are checked, not the limit dt -> 0; constants C = k|w0-winf|/2 and C\' = 3|w0-winf|/2.'),
 'C18': dict(
   technique='TLA+ table semantics (Snapshot.tla: requested columns, linear interpolation, unit conversion via Units.tla, NaN exactly for unrecorded variables; CSV export) + TLC validation of real snapshot tables and re-read CSV files (Trace_Snapshot.tla)',
   text=('Real simulated powertrains are snapshot at recorded instants, between them and at both ends (target time in any unit) for no selection, every singleton, every complement, pairs and random subsets (thorough: every non-empty subset) '
         'with output units from every unit list; exported CSVs are re-read; histories are never uniformly spaced (continuations with other steps and time units) and may hold samples of mixed units; the full table is read at every recorded instant and every interval midpoint. TLC checks the column set exactly, every cell and every CSV value against the recorded history. Notes only (outside the statement): Powertrain.plot figures read back from the Agg backend, API error contracts, sensor readings.'),
   ref='DESIGN.md section 4 C18',
   note=TB + '; only variables that some element records are requested.'),
}

ALL = ['C%02d' % i for i in range(1, 21)]


def main():
    checks = []
    for pid, c in sorted(CHECKS.items()):
        checks.append({
            'property_id': pid,
            'quick_cmd': f'./check {pid} --tier quick',
            'thorough_cmd': f'./check {pid} --tier thorough',
            'evidence_file': f'/verif/evidence/{pid}.json',
            'replay_cmd_template': f'./check {pid} --replay {{path}}',
            'engine': 'tlc+trace-validation',
            'level_claimed': {'category': 'model_checking', 'text': c['text'], 'design_ref': c['ref']},
            'level_note': c['note'],
            'technique': c['technique'],
        })
    na = [{'property_id': p, 'reason': 'check not built yet in this session (specification module planned in DESIGN.md section 4); not claimed until its check exists and is quiet on the unchanged tree'}
          for p in ALL if p not in CHECKS]
    m = {
        'version': 1,
        'setup_cmd': './setup.sh',
        'hooks': {'guard': 'GEARPY_VERIF', 'enable': 'no source hooks: all observations go through public API from harness-owned objects',
                  'baseline_off_cmd': 'cd /repo && /venv/bin/python -m pytest -ra -q -p no:cacheprovider --timeout=900 --continue-on-collection-errors',
                  'source_commits': [], 'add_only': True},
        'engines': [
            {'name': 'tlc', 'path': 'spec/', 'serves_properties': sorted(CHECKS), 'kind_free_text': 'TLA+ specification modules + TLC (exhaustive configs, simulation, trace validation) with exact rationals (java/tlc2/module/BigRat.java)'},
            {'name': 'harness', 'path': 'harness/', 'serves_properties': sorted(CHECKS), 'kind_free_text': 'Python drivers/recorders running the real gearpy from /repo working tree; spec->code replay and code->spec trace recording'},
        ],
        'checks': checks,
        'not_applicable': na,
        'notes': 'See DESIGN.md. Exit 2 from a check means machinery failure (never a verdict). known_findings.json lists known/fixed findings.',
    }
    json.dump(m, open(os.path.join(VERIF, 'MANIFEST.json'), 'w'), indent=1)
    print('MANIFEST.json:', len(checks), 'checks,', len(na), 'not claimed')


if __name__ == '__main__':
    main()
