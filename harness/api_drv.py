"""Error contracts of public calls (growth beyond the listed properties): Trace_Api.tla decides."""
from __future__ import annotations
import tempfile, shutil, os
from .core import import_repo
from .units_drv import outcome


def events():
    import_repo()
    from gearpy.mechanical_objects import DCMotor, SpurGear, Flywheel
    from gearpy.units import (AngularSpeed, Torque, Current, InertiaMoment, AngularPosition, TimeInterval, Time, Length, Angle)
    from gearpy.utils import add_fixed_joint, add_gear_mating, StopCondition
    from gearpy.powertrain import Powertrain
    from gearpy.solver import Solver
    from gearpy.motor_control import PWMControl
    from gearpy.sensors import Timer, Tachometer, Amperometer, AbsoluteRotaryEncoder
    evs = []
    n = [0]

    def fresh(with_load=True, with_current=True):
        kw = dict(no_load_electric_current=Current(0.1, 'A'), maximum_electric_current=Current(2, 'A')) if with_current else {}
        m = DCMotor('m', InertiaMoment(1, 'kgm^2'), AngularSpeed(100, 'rad/s'), Torque(1, 'Nm'), **kw)
        g = SpurGear('g', 10, InertiaMoment(1, 'kgm^2'))
        add_fixed_joint(m, g)
        if with_load:
            g.external_torque = lambda time, angular_position, angular_speed: Torque(0.1, 'Nm')
        g.angular_position = AngularPosition(0, 'rad')
        g.angular_speed = AngularSpeed(0, 'rad/s')
        return Powertrain(m), m, g

    def state(pt):
        return (len(pt.time), tuple(tuple(len(v) for v in e.time_variables.values()) for e in pt.elements),
                tuple(getattr(e, 'pwm', None) for e in pt.elements))

    def add(call, arg, pt, fn):
        n[0] += 1
        before = state(pt) if pt is not None else None
        _, err = outcome(fn)
        after = state(pt) if pt is not None else None
        evs.append({'id': f'api{n[0]}', 'call': call, 'arg': arg, 'out': 'ok' if err is None else err, 'state_changed': before != after})
    dt, T = TimeInterval(0.1, 'sec'), TimeInterval(0.5, 'sec')
    pt, m, g = fresh()
    add('Solver', 'ok', pt, lambda: Solver(pt))
    add('Solver', 'not_powertrain', None, lambda: Solver(m))
    add('Solver', 'not_powertrain', None, lambda: Solver(None))
    for arg, f in [('dt_not_interval', lambda s: s.run(Time(0.1, 'sec'), T)), ('dt_not_interval', lambda s: s.run(0.1, T)),
                   ('T_not_interval', lambda s: s.run(dt, Time(1, 'sec'))), ('T_not_interval', lambda s: s.run(dt, 5)),
                   ('dt_ge_T', lambda s: s.run(T, dt)), ('dt_eq_T', lambda s: s.run(dt, TimeInterval(100, 'ms'))),
                   ('control_wrong_type', lambda s: s.run(dt, T, motor_control='x')), ('stop_wrong_type', lambda s: s.run(dt, T, stop_condition=3)),
                   ('ok', lambda s: s.run(dt, T))]:
        pt, m, g = fresh()
        s = Solver(pt)
        add('run', arg, pt, lambda: f(s))
    pt, m, g = fresh(with_load=False)
    s = Solver(pt)
    add('run', 'no_external_torque', pt, lambda: s.run(dt, T))
    pt, m, g = fresh()
    g.external_torque = lambda time, angular_position, angular_speed: 0.1
    s = Solver(pt)
    add('run', 'load_returns_number', pt, lambda: s.run(dt, T))
    # snapshot / export on a simulated powertrain
    pt, m, g = fresh()
    Solver(pt).run(dt, T)
    snap = lambda **kw: pt.snapshot(print_data=False, **kw)
    for arg, f in [('ok', lambda: snap(target_time=Time(0.25, 'sec'))), ('target_not_time', lambda: snap(target_time=0.2)),
                   ('target_before', lambda: snap(target_time=Time(-1, 'sec'))), ('target_after', lambda: snap(target_time=Time(1, 'min'))),
                   ('variables_not_list', lambda: snap(target_time=Time(0.2, 'sec'), variables='torque')),
                   ('variables_empty', lambda: snap(target_time=Time(0.2, 'sec'), variables=[])),
                   ('variable_not_str', lambda: snap(target_time=Time(0.2, 'sec'), variables=[3])),
                   ('variable_unknown', lambda: snap(target_time=Time(0.2, 'sec'), variables=['bending stress'])),
                   ('unit_not_str', lambda: snap(target_time=Time(0.2, 'sec'), torque_unit=5)),
                   ('unit_unknown', lambda: snap(target_time=Time(0.2, 'sec'), torque_unit='furlong')),
                   ('print_not_bool', lambda: pt.snapshot(target_time=Time(0.2, 'sec'), print_data='yes'))]:
        add('snapshot', arg, pt, f)
    pt0, m0, g0 = fresh()
    add('snapshot', 'nothing_simulated', pt0, lambda: pt0.snapshot(target_time=Time(0, 'sec'), print_data=False))
    d = tempfile.mkdtemp(prefix='verif-api-')
    try:
        for arg, f in [('ok', lambda: pt.export_time_variables(folder_path=os.path.join(d, 'a'))), ('folder_not_str', lambda: pt.export_time_variables(folder_path=5)),
                       ('folder_empty', lambda: pt.export_time_variables(folder_path='')), ('unit_not_str', lambda: pt.export_time_variables(folder_path=os.path.join(d, 'b'), time_unit=1)),
                       ('unit_unknown', lambda: pt.export_time_variables(folder_path=os.path.join(d, 'c'), torque_unit='psi'))]:
            add('export', arg, pt, f)
    finally:
        shutil.rmtree(d, ignore_errors=True)
    pt, m, g = fresh()
    for arg, v in [('ok', lambda time, angular_position, angular_speed: Torque(1, 'Nm')), ('not_callable', 5), ('missing_parameter', lambda time, angular_position: Torque(1, 'Nm'))]:
        def setx(v=v):
            g.external_torque = v
        add('external_torque', arg, pt, setx)
    for arg, v in [('ok', 0.5), ('ok', -1), ('not_number', 'x'), ('not_number', None), ('out_of_range', 1.5), ('out_of_range', -3)]:
        def setp(v=v):
            m.pwm = v
        add('pwm', arg, pt, setp)
    ctl = PWMControl(pt)
    add('add_rule', 'not_rule', pt, lambda: ctl.add_rule('rule'))
    add('add_rule', 'not_rule', pt, lambda: ctl.add_rule(None))
    tach = Tachometer(g)
    add('StopCondition', 'ok', pt, lambda: StopCondition(sensor=tach, threshold=AngularSpeed(1, 'rad/s'), operator=StopCondition.greater_than))
    add('StopCondition', 'sensor', pt, lambda: StopCondition(sensor=g, threshold=AngularSpeed(1, 'rad/s'), operator=StopCondition.greater_than))
    add('StopCondition', 'threshold', pt, lambda: StopCondition(sensor=tach, threshold=1.0, operator=StopCondition.greater_than))
    add('StopCondition', 'operator', pt, lambda: StopCondition(sensor=tach, threshold=AngularSpeed(1, 'rad/s'), operator='>'))
    add('Timer', 'ok', pt, lambda: Timer(Time(0, 'sec'), TimeInterval(1, 'sec')))
    add('Timer', 'start', pt, lambda: Timer(0, TimeInterval(1, 'sec')))
    add('Timer', 'duration', pt, lambda: Timer(Time(0, 'sec'), Time(1, 'sec')))
    add('Timer', 'current_time', pt, lambda: Timer(Time(0, 'sec'), TimeInterval(1, 'sec')).is_active(3))
    add('sensor_get_value', 'ok', pt, lambda: tach.get_value('rpm'))
    add('sensor_get_value', 'unit_not_str', pt, lambda: tach.get_value(3))
    add('sensor_get_value', 'unit_unknown', pt, lambda: AbsoluteRotaryEncoder(g).get_value('meters'))
    add('Amperometer', 'ok', pt, lambda: Amperometer(m))
    add('Amperometer', 'not_motor', pt, lambda: Amperometer(g))
    ptn, mn, gn = fresh(with_current=False)
    add('Amperometer', 'no_current_data', ptn, lambda: Amperometer(mn))
    add('update_time', 'not_time', pt, lambda: pt.update_time(0.5))
    add('quantity', 'ok', None, lambda: Length(1, 'mm'))
    add('quantity', 'value_not_number', None, lambda: Length('1', 'mm'))
    add('quantity', 'unit_not_str', None, lambda: Length(1, 5))
    add('quantity', 'unit_unknown', None, lambda: Length(1, 'inch'))
    add('quantity', 'sign', None, lambda: Angle(-1, 'deg'))
    add('element_name', 'not_str', None, lambda: Flywheel(3, InertiaMoment(1, 'kgm^2')))
    add('element_name', 'empty', None, lambda: Flywheel('', InertiaMoment(1, 'kgm^2')))
    add('element_name', 'ok', None, lambda: Flywheel('f', InertiaMoment(1, 'kgm^2')))
    # sensor readings (growth): get_value(unit) is the target's live attribute converted to the unit, get_value() the quantity itself
    from fractions import Fraction
    from . import spectab
    from .core import rstr
    ptv, mv, gv = fresh()
    amp = Amperometer(mv)
    vals = [Fraction(0), Fraction(7, 4), Fraction(-1234567, 1000), Fraction(1, 3 * 10**6), Fraction(5 * 10**7)]
    for sname, sensor, kind, setter in [('enc', AbsoluteRotaryEncoder(gv), 'AngularPosition', lambda x: setattr(gv, 'angular_position', x)),
                                        ('tach', Tachometer(gv), 'AngularSpeed', lambda x: setattr(gv, 'angular_speed', x)),
                                        ('amp', amp, 'Current', lambda x: setattr(mv, 'electric_current', x))]:
        import gearpy.units as U
        cls = getattr(U, kind)
        for u_in in spectab.units_of(kind):
            for k, val in enumerate(vals):
                q = cls(float(val), u_in)
                setter(q)
                si = rstr(spectab.to_si(Fraction(q.value), kind, u_in))
                for u_out in ([''] + spectab.units_of(kind) if k < 2 else [spectab.units_of(kind)[k % len(spectab.units_of(kind))]]):
                    n[0] += 1
                    r, err = outcome(lambda: sensor.get_value(u_out) if u_out else sensor.get_value())
                    isnum = isinstance(r, (int, float)) and not isinstance(r, bool)
                    if err is not None:
                        out = 'raised ' + err
                    elif isnum:
                        out = rstr(r)
                    else:
                        out = rstr(spectab.to_si(Fraction(r.value), kind, r.unit)) if type(r).__name__ == kind else 'wrong kind'
                    evs.append({'id': f'api{n[0]}', 'call': 'sensor_value', 'sensor': sname, 'kind': kind, 'si': si, 'unit': u_out, 'out': out, 'isnum': isnum})
    return evs
