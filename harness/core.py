"""Shared machinery: TLC runner, evidence writer, known-findings logic, repo import.

Exit codes used by ./check: 0 = property held on everything explored (possibly with
KNOWN-FINDING lines), 1 = VIOLATION, 2 = machinery failure (never reported as a verdict).
"""
from __future__ import annotations
import hashlib, json, os, re, shutil, subprocess, sys, tempfile, time
from fractions import Fraction

VERIF = os.path.dirname(os.path.dirname(os.path.abspath(__file__)))
SPEC = os.path.join(VERIF, 'spec')
REPO = os.environ.get('VERIF_REPO', '/repo')
TLA_JARS = '/opt/veriftools/tla/tla2tools.jar:/opt/veriftools/tla/CommunityModules-deps.jar'
CLASSES = os.path.join(VERIF, 'build', 'classes')
NCPU = os.cpu_count() or 4


class Machinery(Exception):
    """The checking machinery itself failed (exit 2)."""


def ensure_built():
    cls = os.path.join(CLASSES, 'tlc2', 'module', 'BigRat.class')
    src = os.path.join(VERIF, 'java', 'tlc2', 'module', 'BigRat.java')
    if not os.path.exists(cls) or os.path.getmtime(cls) < os.path.getmtime(src):
        os.makedirs(CLASSES, exist_ok=True)
        r = subprocess.run(['javac', '-cp', TLA_JARS.split(':')[0], '-d', CLASSES, src],
                           capture_output=True, text=True)
        if r.returncode != 0:
            raise Machinery('javac failed: ' + r.stderr)


def repo_hash() -> str:
    h = hashlib.sha256()
    root = os.path.join(REPO, 'gearpy')
    for d, _, fs in sorted(os.walk(root)):
        for f in sorted(fs):
            if f.endswith(('.py', '.csv')):
                p = os.path.join(d, f)
                h.update(p.encode())
                with open(p, 'rb') as fh:
                    h.update(fh.read())
    return h.hexdigest()[:16]


def import_repo():
    """Make `import gearpy` resolve to the working tree under REPO (never a cached copy)."""
    if REPO not in sys.path:
        sys.path.insert(0, REPO)
    import warnings
    warnings.filterwarnings('ignore')
    import gearpy  # noqa
    got = os.path.dirname(os.path.dirname(os.path.abspath(gearpy.__file__)))
    if os.path.realpath(got) != os.path.realpath(REPO):
        raise Machinery(f'gearpy imported from {got}, expected {REPO}')
    return gearpy


class TLCResult:
    def __init__(self):
        self.ok = False           # TLC finished without reporting an error
        self.violated = None      # name of violated invariant / property, if any
        self.error = None         # other error text
        self.generated = 0
        self.distinct = 0
        self.depth = 0
        self.prints: list[str] = []   # PrintT'ed strings (unquoted)
        self.coverage: dict[str, int] = {}
        self.stdout = ''
        self.wall = 0.0
        self.cex: list[str] = []  # counterexample states text


_PRINT_RE = re.compile(r'^"((?:[^"\\]|\\.)*)"$')


def run_tlc(module: str, cfg: str | None = None, *, env: dict | None = None, workers: int | str = 'auto',
            simulate: str | None = None, depth: int | None = None, coverage: bool = False,
            timeout: int = 3600, seed: int | None = None, dfs_queue: bool = False,
            extra: list[str] | None = None, xmx: str = '6g', cwd: str | None = None) -> TLCResult:
    """Run TLC on spec/<module>.tla with spec/<cfg>.  Returns a parsed TLCResult."""
    ensure_built()
    meta = tempfile.mkdtemp(prefix='verif-tlc-')
    cmd = ['java', '-Xss64m', f'-Xmx{xmx}', '-XX:+UseParallelGC', '-XX:ParallelGCThreads=4', f'-Djava.io.tmpdir={meta}']    # (TLC's scratch directories go away with meta)
    if dfs_queue:
        cmd.append('-Dtlc2.tool.queue.IStateQueue=StateDeque')
    cmd += ['-cp', f'{CLASSES}:{TLA_JARS}', 'tlc2.TLC', '-metadir', meta, '-noGenerateSpecTE',
            '-config', cfg or (module + '.cfg'), '-workers', str(workers)]
    if simulate:
        cmd += ['-simulate', simulate]
    if depth is not None:
        cmd += ['-depth', str(depth)]
    if coverage:
        cmd += ['-coverage', '1']
    if seed is not None:
        cmd += ['-seed', str(seed)]
    cmd += ['-deadlock'] if False else []
    if extra:
        cmd += extra
    cmd.append(module)
    e = dict(os.environ)
    if env:
        e.update({k: str(v) for k, v in env.items()})
    t0 = time.time()
    res = TLCResult()
    try:
        p = subprocess.run(cmd, cwd=cwd or SPEC, env=e, capture_output=True, text=True, timeout=timeout)
        out = p.stdout + ('\n' + p.stderr if p.stderr.strip() else '')
    except subprocess.TimeoutExpired as ex:
        out = (ex.stdout.decode() if isinstance(ex.stdout, bytes) else (ex.stdout or '')) + '\nTLC TIMEOUT'
        res.error = 'timeout'
        p = None
    finally:
        shutil.rmtree(meta, ignore_errors=True)
    res.wall = time.time() - t0
    res.stdout = out
    lines = out.splitlines()
    for i, ln in enumerate(lines):
        m = _PRINT_RE.match(ln.strip())
        if m:
            res.prints.append(m.group(1).replace('\\"', '"').replace('\\\\', '\\'))
            continue
        m = re.match(r'^(\d+) states generated, (\d+) distinct states found', ln)
        if m:
            res.generated, res.distinct = int(m.group(1)), int(m.group(2))
        m = re.match(r'^The depth of the complete state graph search is (\d+)', ln)
        if m:
            res.depth = int(m.group(1))
        m = re.match(r'^Error: Invariant (\S+) is violated', ln)
        if m:
            res.violated = m.group(1)
        m = re.match(r'^Error: Action property (\S+) is violated', ln)
        if m:
            res.violated = m.group(1)
        m = re.match(r'^Error: Temporal properties were violated', ln)
        if m:
            res.violated = res.violated or 'temporal'
        m = re.match(r'^<(\w+) line \d+, col \d+ to line \d+, col \d+ of module (\w+)>: (\d+):(\d+)', ln)
        if m:
            res.coverage[m.group(1)] = res.coverage.get(m.group(1), 0) + int(m.group(4))
        if ln.startswith('Error:') and res.violated is None and res.error is None:
            res.error = '\n'.join(lines[i:i + 12])
    if res.violated:
        # keep the printed counterexample
        try:
            k = next(i for i, ln in enumerate(lines) if ln.startswith('Error: ') and 'violated' in ln)
            res.cex = lines[k:k + 400]
        except StopIteration:
            pass
    finished = any('Model checking completed' in ln or 'Finished in' in ln or
                   'The number of states generated' in ln for ln in lines)
    res.ok = finished and res.error is None and res.violated is None
    if simulate and res.error is None and res.violated is None:
        res.ok = True
    return res


def require_ok(r: TLCResult, what: str):
    if r.violated:
        return
    if not r.ok:
        tail = '\n'.join(r.stdout.splitlines()[-40:])
        raise Machinery(f'TLC failed on {what}: {r.error or "no completion banner"}\n{tail}')


def spec_hash() -> str:
    import glob
    h = hashlib.sha256()
    for f in sorted(glob.glob(os.path.join(SPEC, '*.tla')) + glob.glob(os.path.join(SPEC, '*.cfg')) +
                    glob.glob(os.path.join(VERIF, 'java', 'tlc2', 'module', '*.java'))):
        h.update(open(f, 'rb').read())
    return h.hexdigest()[:16]


def mc_cached(module: str, cfg: str, *, workers='auto', timeout=3600, coverage=False) -> dict:
    """Run a design-level TLC configuration once per specification version (the result does not depend on /repo);
    concurrent checks wait for each other on a file lock instead of repeating the exploration."""
    import fcntl
    cdir = os.path.join(VERIF, '.cache')
    os.makedirs(cdir, exist_ok=True)
    key = f'mc-{module}-{cfg}-{spec_hash()}'
    cp = os.path.join(cdir, key + '.json')
    with open(os.path.join(cdir, key + '.lock'), 'w') as lf:
        fcntl.flock(lf, fcntl.LOCK_EX)
        if os.path.exists(cp):
            return json.load(open(cp))
        r = run_tlc(module, cfg, workers=workers, timeout=timeout, coverage=coverage)
        if not r.ok and not r.violated:
            tail = '\n'.join(r.stdout.splitlines()[-30:])
            raise Machinery(f'TLC failed on {module} / {cfg}: {r.error}\n{tail}')
        d = {'module': module, 'cfg': cfg, 'violated': r.violated, 'distinct': r.distinct, 'generated': r.generated, 'depth': r.depth,
             'wall_s': round(r.wall, 2), 'cex': r.cex[:80], 'coverage': r.coverage}
        tmp = cp + f'.{os.getpid()}'
        json.dump(d, open(tmp, 'w'))
        os.replace(tmp, cp)
        return d


def add_mc(v, d: dict, label: str, expect_violation: str | None = None, need_actions: tuple = ()):
    """fold a cached design-level TLC result into a Verdict; need_actions: actions that must have been taken (vacuity guard)"""
    for a in need_actions:
        if d.get('coverage') and d['coverage'].get(a, 0) == 0:
            raise Machinery(f'vacuity guard: action {a} was never taken in {d["cfg"]}')
    v.states += d['distinct']
    v.transitions += d['generated']
    v.extra.setdefault('tlc_runs', []).append({'label': label, 'config': d['cfg'], 'distinct_states': d['distinct'],
                                                'states_generated': d['generated'], 'depth': d['depth'], 'wall_s': d['wall_s'],
                                                **({'action_coverage': d['coverage']} if d.get('coverage') else {}),
                                                **({'expected_counterexample_found': d['violated'] == expect_violation} if expect_violation else {})})
    if expect_violation:
        if d['violated'] != expect_violation:
            v.extra.setdefault('notes', []).append(f'{d["cfg"]}: TLC no longer finds the design-level counterexample {expect_violation}')
    elif d['violated']:
        v.violation({'clauses': ['SpecInvariant_' + d['violated']], 'config': d['cfg'], 'cex': d['cex'][:60]})


# ---------------------------------------------------------------- numbers
def frac(s) -> Fraction:
    """Exact value of a spec rational string or a Python number."""
    if isinstance(s, Fraction):
        return s
    if isinstance(s, (int,)):
        return Fraction(s)
    if isinstance(s, float):
        return Fraction(s)
    s = str(s)
    if '/' in s:
        n, d = s.split('/')
        return Fraction(int(n), int(d))
    return Fraction(s)


def rstr(x) -> str:
    """Spec spelling of a Python number: exact (repr of a float is its shortest round-trip
    decimal, which BigRat parses exactly as that decimal; we want the float's *exact*
    binary value, so floats go through Fraction)."""
    if isinstance(x, bool):
        return '1' if x else '0'
    if isinstance(x, int):
        return str(x)
    if isinstance(x, float):
        if x != x:
            return 'nan'
        if x in (float('inf'), float('-inf')):
            return 'inf' if x > 0 else '-inf'
        f = Fraction(x)
        return str(f.numerator) if f.denominator == 1 else f'{f.numerator}/{f.denominator}'
    if isinstance(x, Fraction):
        return str(x.numerator) if x.denominator == 1 else f'{x.numerator}/{x.denominator}'
    try:
        import numpy as np
        if isinstance(x, np.floating):
            return rstr(float(x))
        if isinstance(x, np.integer):
            return rstr(int(x))
    except ImportError:
        pass
    raise TypeError(f'rstr: {type(x)}')


# ---------------------------------------------------------------- evidence / verdicts
class Verdict:
    """Collects what one check run covered and found; writes evidence and decides the exit code."""

    def __init__(self, pid: str, tier: str, seed: int):
        self.pid, self.tier, self.seed = pid, tier, seed
        self.t0 = time.time()
        self.states = 0
        self.transitions = 0
        self.traces = 0
        self.evaluations = 0
        self.distinct = 0
        self.samples: list = []
        self.extra: dict = {}
        self.assumptions: list[str] = []
        self.violations: list[dict] = []
        self.known_hits: list[tuple[dict, dict]] = []
        self.rule = ''
        self.exhaustive = None

    def add_tlc(self, r: TLCResult, label: str):
        self.states += r.distinct
        self.transitions += r.generated
        self.extra.setdefault('tlc_runs', []).append(
            {'label': label, 'distinct_states': r.distinct, 'states_generated': r.generated,
             'depth': r.depth, 'wall_s': round(r.wall, 2),
             **({'action_coverage': r.coverage} if r.coverage else {})})

    def sample(self, s, cap=6):
        if len(self.samples) < cap:
            self.samples.append(s)

    def violation(self, case: dict):
        self.violations.append(case)


def load_known() -> list[dict]:
    p = os.path.join(VERIF, 'known_findings.json')
    if not os.path.exists(p):
        return []
    return json.load(open(p)).get('findings', [])


def finish(v: Verdict, matchers: dict | None = None) -> int:
    """Write evidence, print VIOLATION / KNOWN-FINDING lines, return exit code.

    matchers: {finding_id: predicate(case) -> bool}; a violation case matched by a
    `known` entry of known_findings.json (for this property) is reported as KNOWN-FINDING.
    `fixed` entries suppress nothing.
    """
    known = [k for k in load_known() if k.get('property') == v.pid and k.get('status') == 'known']
    new, hits = [], {}
    for case in v.violations:
        hit = None
        for k in known:
            pred = (matchers or {}).get(k['id'])
            if pred is not None and pred(case):
                hit = k
                break
        if hit is None:
            new.append(case)
        else:
            hits.setdefault(hit['id'], (hit, []))[1].append(case)
    evdir = os.environ.get('VERIF_EVIDENCE_DIR', os.path.join(VERIF, 'evidence'))      # (mutation runs write elsewhere)
    os.makedirs(os.path.join(evdir, 'replays'), exist_ok=True)
    for fid, (k, cases) in hits.items():
        print(f"KNOWN-FINDING: property={v.pid} {fid} {k['what']} ({len(cases)} case(s) this run)")
    rc = 0
    if new:
        rp = os.path.join(evdir, 'replays', f'{v.pid}-{v.tier}-{v.seed}.json')
        with open(rp, 'w') as f:
            json.dump({'property': v.pid, 'tier': v.tier, 'seed': v.seed, 'cases': new[:200]}, f, indent=1, default=str)
        for case in new[:5]:
            print(f"  violation: {json.dumps(case, default=str)[:600]}")
        print(f'VIOLATION property={v.pid} replay={rp}')
        rc = 1
    cov = {
        'states': max(v.states, 0), 'transitions': max(v.transitions, 0),
        'traces_validated_against_impl': v.traces,
        'evaluations': v.evaluations, 'distinct_nontrivial': v.distinct,
        'rule': v.rule, 'samples': v.samples or ['(none)'],
        'known_findings_reproduced': sorted(hits.keys()),
    }
    if v.exhaustive is not None:
        cov['exhaustive'] = v.exhaustive
    cov.update(v.extra)
    ev = {'property_id': v.pid, 'tier': v.tier, 'seed': v.seed, 'level': 'model_checking',
          'coverage': cov, 'assumptions': v.assumptions, 'wall_s': round(time.time() - v.t0, 2),
          'violations': len(new)}
    with open(os.path.join(evdir, f'{v.pid}.json'), 'w') as f:
        json.dump(ev, f, indent=1, default=str)
    return rc
