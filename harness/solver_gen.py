"""Seeded generators of abstract powertrain instances and schedules for the solver campaigns."""
from __future__ import annotations
import math, random
from fractions import Fraction

F = Fraction
ALPHAS = {'14.5': 16, '20': 25, '25': 35, '30': 45}


def sig(x, n=4):
    return F(f'{x:.{n}g}')


def gear_data(rnd, full=None):
    """optional data subset (module, face width, elastic modulus)"""
    if full is None:
        full = rnd.random() < 0.5
    d = {}
    if full or rnd.random() < 0.5:
        d['module'] = sig(rnd.uniform(3e-4, 4e-3))
        if full or rnd.random() < 0.6:
            d['b'] = sig(rnd.uniform(2e-3, 3e-2))
            if full or rnd.random() < 0.6:
                d['E'] = sig(rnd.uniform(5e10, 3e11))
    return d


def random_chain(rnd, n_elems, *, want_selflock=None, with_current=None, stress=True):
    """chain of n_elems elements (motor first, a GearBase last, which carries the load)"""
    with_current = rnd.random() < 0.6 if with_current is None else with_current
    Tmax = sig(rnd.uniform(2e-3, 0.5))
    motor = {'kind': 'DCMotor', 'J': sig(rnd.uniform(1e-8, 1e-5)), 'Tmax': Tmax, 'w0': sig(rnd.uniform(50, 1500)), 'i0': None, 'imax': None}
    if with_current:
        imax = sig(rnd.uniform(0.2, 10))
        motor['i0'] = sig(float(imax) * rnd.uniform(0.01, 0.3)) if rnd.random() < 0.9 else F(0)
        motor['imax'] = imax
    elif rnd.random() < 0.3:
        # only ONE of the two current data (legal; the current is then not computable and must not be advertised)
        if rnd.random() < 0.5:
            motor['imax'] = sig(rnd.uniform(0.2, 10))
        else:
            motor['i0'] = sig(rnd.uniform(0.01, 1))
    elems = [motor]
    has_worm = False
    while len(elems) < n_elems:
        prev = elems[-1]
        last = len(elems) == n_elems - 1
        J = sig(rnd.uniform(1e-8, 1e-4))
        opts = []
        pk = prev['kind']
        # what may follow `prev`, and how
        opts += [('joint', 'SpurGear'), ('joint', 'HelicalGear'), ('joint', 'WormWheel')]
        if not last:
            opts += [('joint', 'Flywheel'), ('joint', 'WormGear'), ('joint', 'WormGear')]
        if pk == 'SpurGear':
            opts += [('gear', 'SpurGear')] * 4
        if pk == 'HelicalGear':
            opts += [('gear', 'HelicalGear')] * 4
        if pk == 'WormGear':
            opts = [('worm', 'WormWheel')] * 6 + opts
        if pk == 'WormWheel' and not last:
            opts += [('worm', 'WormGear')] * 2
        if want_selflock and not has_worm and pk not in ('WormGear',) and len(elems) <= n_elems - 2:
            opts = [('joint', 'WormGear')]
        rt, k = rnd.choice(opts)
        e = {'kind': k, 'J': J, 'rel': {'type': rt, 'arg': None}}
        data = gear_data(rnd) if stress else {}
        if k == 'SpurGear':
            e['teeth'] = rnd.randint(10, 80)
            if rt == 'gear' and rnd.random() < 0.12:
                e['teeth'] = prev['teeth']              # an idler pair: a real mating (efficiency < 1) whose ratio is exactly 1
            if rt == 'gear':
                # same module as the driver (or one of them without); contact stress needs both complete
                for f in ('module',):
                    if prev.get('module') is not None:
                        data['module'] = prev['module'] if 'module' in data else None
                data = {kk: vv for kk, vv in data.items() if vv is not None}
                if 'module' not in data:
                    data.pop('b', None); data.pop('E', None)
                e['rel']['arg'] = sig(rnd.uniform(0.4, 1)) if rnd.random() < 0.85 else F(1)
            e.update(data)
        elif k == 'HelicalGear':
            e['teeth'] = rnd.randint(10, 80)
            if rt == 'gear' and rnd.random() < 0.12:
                e['teeth'] = prev['teeth']
            if rt == 'gear':
                e['helix_deg'] = prev['helix_deg']
                if prev.get('module') is not None and 'module' in data:
                    data['module'] = prev['module']
                e['rel']['arg'] = sig(rnd.uniform(0.4, 1))
            else:
                e['helix_deg'] = sig(rnd.uniform(3, 40))
            e.update(data)
        elif k == 'WormGear':
            a = rnd.choice(list(ALPHAS))
            e['alpha_deg'] = F(a)
            e['helix_deg'] = sig(rnd.uniform(2, ALPHAS[a] - 0.5))
            e['teeth'] = rnd.randint(1, 4)
            if rnd.random() < 0.6 and stress:
                e['dref'] = sig(rnd.uniform(5e-3, 5e-2))
            if rt == 'worm':        # wheel drives worm
                e['alpha_deg'] = prev['alpha_deg']
                e['helix_deg'] = prev['helix_deg']
                tanb = math.tan(math.radians(float(e['helix_deg'])))
                cosa = math.cos(math.radians(float(e['alpha_deg'])))
                fmax = cosa * tanb * 0.8          # efficiency must stay positive: f < cos(alpha) tan(beta)
                e['rel']['arg'] = sig(rnd.uniform(0, fmax))
            has_worm = True
        elif k == 'WormWheel':
            e['teeth'] = rnd.randint(10, 90)
            if rt == 'worm':
                e['alpha_deg'] = prev['alpha_deg']
                e['helix_deg'] = prev['helix_deg']
                tanb = math.tan(math.radians(float(prev['helix_deg'])))
                cosa = math.cos(math.radians(float(prev['alpha_deg'])))
                thr = cosa * tanb
                if want_selflock is True:
                    f = rnd.uniform(thr * 1.05, min(0.95, thr * 3 + 0.05))
                elif want_selflock is False:
                    f = rnd.uniform(0, thr * 0.95)
                else:
                    f = rnd.uniform(0, min(0.9, thr * 2.2))
                # worm drives: efficiency (cos a - f tan b)/(cos a + f/tan b) > 0 needs f < cos a / tan b (always true here)
                e['rel']['arg'] = sig(min(f, cosa / tanb * 0.95))
            else:
                a = rnd.choice(list(ALPHAS))
                e['alpha_deg'] = F(a)
                e['helix_deg'] = sig(rnd.uniform(2, ALPHAS[a] - 0.5))
            d2 = {kk: vv for kk, vv in data.items() if kk in ('module', 'b')}
            e.update(d2)
        elems.append(e)
    sanitize(elems)
    if rnd.random() < 0.3:
        # names that do not sort like the chain (nothing may depend on them beyond being distinct)
        pool = ['zeta', 'alpha', 'Mu', 'gear 10', 'gear 2', 'a', 'B', 'motor', 'wheel', '0', 'ω', 'gear_1', 'x' * 40, 'load', 'pwm', 'torque']
        rnd.shuffle(pool)
        for k, e in enumerate(elems):
            e['name'] = pool[k] if k < len(pool) else f'n{k}'
    return elems


def sanitize(elems):
    """Drop optional data that would make run() raise (documented ValueErrors, outside the statements about runs that return):
    a gear with module but no mating role; a contact stress whose mate lacks module / elastic modulus."""
    n = len(elems)
    role = ['none'] * n
    for i in range(1, n):
        if elems[i]['rel']['type'] in ('gear', 'worm'):
            role[i - 1] = 'master'
            role[i] = 'slave'
    for i in range(1, n):
        e = elems[i]
        if role[i] == 'none':
            for f in ('module', 'b', 'E', 'dref'):
                e.pop(f, None)
    for i in range(1, n):
        e = elems[i]
        if e['kind'] in ('SpurGear', 'HelicalGear') and all(f in e for f in ('module', 'b', 'E')):
            j = i + 1 if role[i] == 'master' else i - 1
            m = elems[j]
            if not (m.get('module') is not None and m.get('E') is not None):
                e.pop('E', None)
    # second pass: removing E from one may invalidate its mate's contact stress
    for i in range(1, n):
        e = elems[i]
        if e['kind'] in ('SpurGear', 'HelicalGear') and all(f in e for f in ('module', 'b', 'E')):
            j = i + 1 if role[i] == 'master' else i - 1
            m = elems[j]
            if not (m.get('module') is not None and m.get('E') is not None):
                e.pop('E', None)


def complete_data(elems, rnd):
    """give every mated gear pair complete data (same module, face widths, elastic moduli; worm reference diameter) so that force and
    both stresses are recorded"""
    for i in range(1, len(elems)):
        e, p = elems[i], elems[i - 1]
        if e['rel']['type'] == 'gear':
            m = p.get('module') or e.get('module') or sig(rnd.uniform(3e-4, 4e-3))
            for g in (p, e):
                g['module'] = m
                g.setdefault('b', sig(rnd.uniform(2e-3, 3e-2)))
                if g['kind'] != 'WormWheel':
                    g.setdefault('E', sig(rnd.uniform(5e10, 3e11)))
        elif e['rel']['type'] == 'worm':
            worm, wheel = (p, e) if p['kind'] == 'WormGear' else (e, p)
            worm.setdefault('dref', sig(rnd.uniform(5e-3, 5e-2)))
            wheel.setdefault('module', sig(rnd.uniform(3e-4, 4e-3)))
            wheel.setdefault('b', sig(rnd.uniform(2e-3, 3e-2)))
    sanitize(elems)


def ratio_prod(elems):
    r = F(1)
    for i in range(1, len(elems)):
        e, p = elems[i], elems[i - 1]
        if e['rel']['type'] in ('gear', 'worm'):
            r *= F(e['teeth'], p['teeth'])
    return r


def eff_prod(elems):
    r = 1.0
    for i in range(1, len(elems)):
        e, p = elems[i], elems[i - 1]
        if e['rel']['type'] == 'gear':
            r *= float(e['rel']['arg'])
        elif e['rel']['type'] == 'worm':
            cosa = math.cos(math.radians(float(p['alpha_deg'])))
            tanb = math.tan(math.radians(float(p['helix_deg'])))
            f = float(e['rel']['arg'])
            r *= ((cosa - f * tanb) / (cosa + f / tanb)) if p['kind'] == 'WormGear' else ((cosa - f / tanb) / (cosa + f * tanb))
    return r


def stall_at_output(elems):
    return float(elems[0]['Tmax']) * float(ratio_prod(elems)) * eff_prod(elems)


def random_load(rnd, elems, mode=None):
    stall = stall_at_output(elems)
    mode = mode or rnd.choice(['small', 'small', 'mid', 'over', 'neg', 'speed', 'pos', 'time', 'zero'])
    ld = {'c0': F(0), 'c1': F(0), 'c2': F(0), 'c3': F(0), 'ts': F(10**9), 'cs': F(0)}
    w_out = float(elems[0]['w0']) / float(ratio_prod(elems))
    if mode == 'small':
        ld['c0'] = sig(stall * rnd.uniform(0.02, 0.4))
    elif mode == 'mid':
        ld['c0'] = sig(stall * rnd.uniform(0.4, 0.95))
    elif mode == 'over':
        ld['c0'] = sig(stall * rnd.choice([1.5, 5, 50, 1000]) * rnd.uniform(1, 2))
    elif mode == 'neg':
        ld['c0'] = -sig(stall * rnd.uniform(0.1, 3))
    elif mode == 'speed':
        ld['c0'] = sig(stall * rnd.uniform(0, 0.3))
        ld['c1'] = sig(stall / w_out * rnd.uniform(0.1, 1.5)) * rnd.choice([1, 1, -1])
    elif mode == 'pos':
        ld['c0'] = sig(stall * rnd.uniform(0, 0.3))
        ld['c2'] = sig(stall * rnd.uniform(0.01, 2)) * rnd.choice([1, -1])
    elif mode == 'time':
        ld['c0'] = sig(stall * rnd.uniform(0, 0.5))
        ld['c3'] = sig(stall * rnd.uniform(0.5, 20)) * rnd.choice([1, -1])
        ld['ts'] = sig(rnd.uniform(0.01, 0.2))
        ld['cs'] = sig(stall * rnd.uniform(-3, 3))
    return ld


def time_constant(elems, extra_damping=0.0):
    """rough mechanical time constant J_eq / k seen at the output (to pick sensible steps)"""
    jeq = float(elems[0]['J'])
    for i in range(1, len(elems)):
        e, p = elems[i], elems[i - 1]
        r = F(e['teeth'], p['teeth']) if e['rel']['type'] in ('gear', 'worm') else F(1)
        jeq = jeq * float(r) + float(e['J'])
    rp = float(ratio_prod(elems))
    k = float(elems[0]['Tmax']) / float(elems[0]['w0']) * rp * rp * eff_prod(elems)
    k += extra_damping
    return jeq / k if k > 0 else 1.0


def pick_dt(rnd, elems, extra_damping=0.0):
    tau = time_constant(elems, extra_damping)
    dt = tau * rnd.uniform(0.02, 0.3)
    dt = min(max(dt, 1e-6), 0.5)
    # decimal step m * 10^-e
    e = math.floor(math.log10(dt))
    m = max(1, min(99, round(dt / 10 ** (e - 1)))) if rnd.random() < 0.5 else max(1, round(dt / 10 ** e))
    if m > 9:
        return F(m) * F(10) ** (e - 1)
    return F(m) * F(10) ** e


TIME_UNITS = ['sec', 'min', 'hour', 'ms']


def random_rules(rnd, elems, dt, n, kind=None):
    """0..4 rules of the four built-in kinds (+ scripted harness rules) with arbitrary windows"""
    T = float(dt) * n
    N = len(elems)
    has_cur = elems[0]['i0'] is not None and elems[0]['imax'] is not None
    w_out = float(elems[0]['w0']) / float(ratio_prod(elems))
    theta_T = w_out * T * 0.5                       # rough angle reached by the output
    rules = []
    k = rnd.choice([0, 1, 1, 2, 2, 3, 4]) if kind is None else kind
    for _ in range(k):
        t = rnd.choice(['const', 'const', 'const', 'reach', 'startprop' if has_cur else 'const', 'startlim' if has_cur else 'const', 'custom'])
        el = rnd.randrange(N)
        rp_el = float(ratio_prod(elems[el:]))        # position of element el = rp_el * output position
        if t == 'const':
            start = sig(rnd.uniform(-0.1, 0.9) * T)
            dur = sig(rnd.uniform(0.05, 0.8) * T)
            val = rnd.choice([F(0), F(1), F(-1), F(1, 2), F(-1, 2), sig(rnd.uniform(-1, 1), 3)])
            rules.append({'type': 'const', 'start': start + F(dt) / 3, 'dur': dur, 'val': val})     # boundaries off the grid
        elif t == 'reach':
            target = sig(theta_T * rp_el * rnd.uniform(0.3, 1.5))
            rules.append({'type': 'reach', 'el': el, 'target': target, 'brake': sig(abs(float(target)) * rnd.uniform(0.1, 0.6) + 1e-6)})
        elif t == 'startprop':
            rules.append({'type': 'startprop', 'el': el, 'target': sig(theta_T * rp_el * rnd.uniform(0.05, 0.6) + 1e-9),
                          'mult': sig(rnd.uniform(1.05, 4)), 'pmin': rnd.choice([None, F(1, 10), F(3, 10)])})
        elif t == 'startlim':
            imax = float(elems[0]['imax'])
            rules.append({'type': 'startlim', 'el': el, 'el_tach': rnd.randrange(N), 'target': sig(theta_T * rp_el * rnd.uniform(0.05, 0.6)),
                          'ilim': sig(imax * rnd.uniform(0.3, 1.2))})
        else:
            script = [rnd.choice([None, None, None, F(1, 2), F(-3), F(7), F(-1), F(0), F(1000), sig(rnd.uniform(-2, 2), 3)]) for _ in range(rnd.randint(2, 7))]
            rules.append({'type': 'custom', 'script': script})
    return rules


def random_stop(rnd, elems, dt, n):
    N = len(elems)
    has_cur = elems[0]['i0'] is not None and elems[0]['imax'] is not None
    s = rnd.choice(['enc', 'tach', 'amp' if has_cur else 'tach'])
    el = 0 if s == 'amp' else rnd.randrange(N)
    rp_el = float(ratio_prod(elems[el:]))
    w_out = float(elems[0]['w0']) / float(ratio_prod(elems))
    T = float(dt) * n
    where = rnd.choice(['before', 'inside', 'inside', 'beyond'])
    scale = {'before': -0.5, 'inside': rnd.uniform(0.05, 0.7), 'beyond': 50}[where]
    if s == 'enc':
        thr = w_out * T * 0.5 * rp_el * scale
    elif s == 'tach':
        thr = w_out * rp_el * scale
    else:
        thr = float(elems[0]['imax']) * scale
    return {'sensor': s, 'el': el, 'op': rnd.choice(['gt', 'ge', 'eq', 'lt', 'le']), 'thr': sig(thr) if thr != 0 else F(0)}


def random_instance(rnd, family, stable=False):
    """family: plain | lock | control | stop | mixed"""
    n_el = rnd.randint(2, 12) if rnd.random() < 0.3 else rnd.randint(2, 6)
    want_sl = {'lock': True, 'plain': rnd.choice([None, None, False])}.get(family, rnd.choice([None, None, True]))
    if want_sl and n_el < 3:
        n_el = 3
    elems = random_chain(rnd, n_el, want_selflock=want_sl)
    mode = rnd.choice(['over', 'over', 'neg', 'small', 'time', 'speed', 'mid']) if family == 'lock' else None
    if stable and mode is None:
        mode = rnd.choice(['small', 'small', 'mid', 'over', 'neg', 'speed', 'time', 'zero'])
    load = random_load(rnd, elems, mode)
    if stable:
        # well-conditioned dynamics only (pair comparisons judge "beyond rounding"): no spring-like or negative-damping load
        load['c2'] = F(0)
        load['c1'] = abs(load['c1'])
    dt = pick_dt(rnd, elems, extra_damping=float(load['c1']) if stable else 0.0)
    inst = {'elems': elems, 'load': load, 'ctrls': [], 'stops': []}
    cand = [i for i in range(1, len(elems) - 1) if elems[i]['kind'] not in ('Flywheel',)]
    if not stable and cand and rnd.random() < 0.1:
        # a second external torque on a gear that is not the last element (same magnitude class as the main load)
        i = rnd.choice(cand)
        l2 = random_load(rnd, elems[:i + 1], rnd.choice(['small', 'over', 'neg', 'speed']))
        inst['extra_loads'] = {i: {k: l2[k] for k in ('c0', 'c1', 'c2', 'c3')}}
    if rnd.random() < 0.3:
        inst['numpy'] = True                   # the load function (and a stop threshold) hold numpy scalars, as in the documentation's examples
    if rnd.random() < 0.2:
        inst['load_unit_cycle'] = rnd.sample(['Nm', 'mNm', 'kgfcm', 'mNmm', 'kNm', 'gfm'], rnd.randint(2, 3))     # the load answers in changing torque units
    n1 = rnd.randint(3, 30)
    w_out = float(elems[0]['w0']) / float(ratio_prod(elems))
    init_spd = rnd.choice([F(0), F(0), sig(w_out * rnd.uniform(-1.2, 1.2))])
    init_pos = rnd.choice([F(0), sig(rnd.uniform(-3, 3))])
    ops = [{'op': 'set_initial', 'pos': init_pos, 'spd': init_spd}, {'op': 'new_solver', 'sid': 1}]

    elapsed = [F(0)]

    def run(sid, n, cont_unit=False):
        # a continued run may use another time step (and another unit) than the run before it; now and then a step that is
        # tiny against the time already simulated
        d = dt * rnd.choice([F(1), F(1), F(1, 2), F(1, 4), F(2), F(3, 2)]) if cont_unit else dt
        if cont_unit and not stable and elapsed[0] > 0 and rnd.random() < 0.12:
            d = sig(float(elapsed[0]) * rnd.choice([1e-5, 1e-6, 1e-8]))
        elapsed[0] += d * n
        op = {'op': 'run', 'sid': sid, 'dt': d, 'T': d * n}
        if family in ('control', 'mixed', 'lock') and rnd.random() < (0.9 if family == 'control' else 0.5):
            if inst['ctrls'] and rnd.random() < 0.35:
                # the SAME control object as the previous controlled run, with rules added to it in between
                base = len(inst['ctrls']) - 1
                inst['ctrls'].append(list(inst['ctrls'][base]) + random_rules(rnd, elems, d, n, kind=rnd.choice([0, 1, 1, 2])))
                inst.setdefault('ctrl_extends', {})[len(inst['ctrls']) - 1] = base
            else:
                inst['ctrls'].append(random_rules(rnd, elems, d, n))
            op['ctrl'] = len(inst['ctrls']) - 1
        if family in ('stop', 'mixed') and rnd.random() < (0.9 if family == 'stop' else 0.3):
            if inst['stops'] and rnd.random() < 0.4:
                op['stop'] = len(inst['stops']) - 1          # the SAME StopCondition object as an earlier run
            else:
                inst['stops'].append(random_stop(rnd, elems, dt, n))
                op['stop'] = len(inst['stops']) - 1
        if cont_unit:
            op['dt_unit'] = rnd.choice(TIME_UNITS)
            op['T_unit'] = rnd.choice(TIME_UNITS)
        return op
    # declaration order, superseded declarations, and re-declarations on a live model
    n_elems = len(elems)
    if rnd.random() < 0.5:
        order = list(range(1, n_elems))
        rnd.shuffle(order)
        inst['decl_order'] = order
    pre = [i for i in range(1, n_elems) if elems[i]['kind'] == 'SpurGear' and elems[i]['rel']['type'] == 'joint'
           and elems[i].get('module') is None and (i + 1 >= n_elems or elems[i + 1]['rel']['type'] == 'joint')]
    if pre and rnd.random() < 0.4:
        inst['pre_declare'] = [rnd.choice(pre)]
    wormed = [i for i in range(1, n_elems) if elems[i]['rel']['type'] == 'worm']
    if wormed and rnd.random() < 0.35:
        # the worm mating was first declared with another friction (a sweep over friction coefficients on the same objects)
        i = rnd.choice(wormed)
        inst['pre_worm'] = {i: rnd.choice([F(9, 10), F(3, 5), F(2, 5), F(1, 20), F(1, 1000), sig(rnd.uniform(0, 0.9))])}
    spur_pairs = [i for i in range(1, n_elems) if elems[i]['rel']['type'] == 'gear' and elems[i]['kind'] == 'SpurGear' and elems[i - 1].get('module') is None]
    if spur_pairs and rnd.random() < 0.25:
        inst['fork_after_build'] = [rnd.choice(spur_pairs)]         # a second layout declared from shared elements after assembly
    geared = [i for i in range(1, n_elems) if elems[i]['rel']['type'] == 'gear']

    def redeclare():
        i = rnd.choice(geared)
        return {'op': 'redeclare', 'i': i, 'arg': sig(rnd.uniform(0.4, 1))}
    if geared and rnd.random() < 0.3:
        ops.append(redeclare())                 # after the Solver was created, before its first run
    if not stable and rnd.random() < (0.3 if family == 'lock' else 0.1):
        # the user assigns the duty cycle before the run (it is what the first lock decision and, without a control, every instant sees)
        ops.append({'op': 'set_pwm', 'v': rnd.choice([F(0), F(0), F(-1), F(1, 2), F(-1, 2), F(1, 50)])})
    ops.append(run(1, n1))
    r = rnd.random()
    sid = 1
    if r < 0.45:
        if geared and rnd.random() < 0.25:
            ops.append(redeclare())             # between a run and its continuation (same epoch, same Solver)
        if not stable and rnd.random() < 0.2:
            # the user re-indexes the output position and / or sets another speed between a run and its continuation
            ops.append({'op': 'set_initial', 'pos': rnd.choice([init_pos, sig(rnd.uniform(-3, 3))]),
                        'spd': rnd.choice([F(0), init_spd, sig(w_out * rnd.uniform(-1.2, 1.2))])})
        ops.append(run(1, rnd.randint(2, 15), cont_unit=rnd.random() < 0.6))
        if rnd.random() < 0.3:
            ops.append(run(1, rnd.randint(2, 8), cont_unit=True))
    if rnd.random() < 0.35:
        ops.append({'op': 'reset'})
        elapsed[0] = F(0)
        if rnd.random() < 0.7:
            ops.append({'op': 'set_initial', 'pos': init_pos, 'spd': init_spd})
        if geared and rnd.random() < 0.3:
            ops.append(redeclare())             # an efficiency sweep: same objects, same Solver, next epoch
        if rnd.random() < 0.5:
            sid = 2
            ops.append({'op': 'new_solver', 'sid': 2})
        ops.append(run(sid, rnd.randint(2, 15)))
        if rnd.random() < 0.3:
            ops.append(run(sid, rnd.randint(2, 6), cont_unit=True))
    inst['ops'] = ops
    return inst
