"""pytest plugin (lives in /verif, loaded with `-p harness.repo_trace_plugin`): records every Solver.run executed by the
repository's own tests as a trace for Trace_Solver.tla.  No repository source is touched: Solver.run and
StopCondition.check_condition are wrapped from outside for the duration of the pytest session; histories are read post hoc.

Relation data the tests' powertrains do not expose (friction coefficients) cannot be recomputed, so these traces use the
relation attributes the elements show (rtype = "attr"); the load function is the test's own, so its returns are logged and the
load clause compares the recorded load torque with the logged return of that instant (load = "logged")."""
from __future__ import annotations
import json, os, sys

OUT = os.environ.get('VERIF_REPO_TRACE_OUT')
MAX_TRACES = int(os.environ.get('VERIF_REPO_TRACE_MAX', '40'))
MAX_INSTANTS = int(os.environ.get('VERIF_REPO_TRACE_MAX_INSTANTS', '120'))
KEEP = int(os.environ.get('VERIF_REPO_TRACE_KEEP', str(MAX_TRACES)))
_state = {'traces': {}, 'order': [], 'done': 0, 'stop_log': None}


def _install():
    from harness import solver_rec
    from harness.solver_rec import si_of, num_s, live_attrs, hist_lens, N
    import gearpy.solver as S
    from gearpy.utils.stop_condition.stop_condition import StopCondition
    orig_run = S.Solver.run
    orig_check = StopCondition.check_condition

    def check(self):
        r = orig_check(self)
        if _state['stop_log'] is not None:
            _state['stop_log'].append(bool(r))
        return r
    StopCondition.check_condition = check

    def run(self, time_discretization, simulation_time, motor_control=None, stop_condition=None):
        pt = getattr(self, '_Solver__powertrain', None)
        if pt is None:
            return orig_run(self, time_discretization, simulation_time, motor_control=motor_control, stop_condition=stop_condition)
        key = id(pt)
        tr = _state['traces'].get(key)
        if tr is None:
            small = sum(1 for t in _state['traces'].values() if 2 <= len(t['pt'].time) <= MAX_INSTANTS and sum(o['op'] == 'run' for o in t['ops']) >= 2)
            if _state['done'] >= MAX_TRACES or small >= KEEP:
                import pytest
                pytest.exit('verif: enough executions recorded', returncode=0)
        if tr is None:
            tr = {'pt': pt, 'ops': [{'op': 'new_solver', 'sid': 1}], 'solvers': {id(self): 1}, 'loads': {}}
            _state['done'] += 1
            _state['traces'][key] = tr
            _state['order'].append(key)
        if id(self) not in tr['solvers']:
            tr['solvers'][id(self)] = len(tr['solvers']) + 1
            tr['ops'].append({'op': 'new_solver', 'sid': tr['solvers'][id(self)]})
        objs = list(pt.elements)
        calls = []
        # wrap the tests' load functions (same parameter names, so the setter accepts them)
        restore = []
        for i, o in enumerate(objs):
            f = getattr(o, 'external_torque', None)
            if f is not None and not getattr(f, '_verif_wrapped', False):
                def wrapped(time, angular_position, angular_speed, _f=f, _i=i):
                    r = _f(time=time, angular_position=angular_position, angular_speed=angular_speed)
                    try:
                        calls.append({'at': len(pt.time), 'el': _i + 1, 'ret': si_of(r, 'Torque')})
                    except Exception:      # noqa  (a test may return a non-Torque on purpose)
                        calls.append({'at': len(pt.time), 'el': _i + 1, 'ret': N})
                    return r
                wrapped._verif_wrapped = True
                try:
                    o.external_torque = wrapped
                    restore.append((o, f))
                except Exception:          # noqa
                    pass
        rec = {'op': 'run', 'sid': tr['solvers'][id(self)], 'ctrl': 0, 'stop': 0, 'thr': N, 'rule': [], 'control': [], 'sensor': []}
        ok_args = True
        try:
            rec.update(dt=si_of(time_discretization, 'Time'), T=si_of(simulation_time, 'Time'),
                       dt_unit=time_discretization.unit, T_unit=simulation_time.unit)
        except Exception:                  # noqa
            ok_args = False
        m = objs[0]
        rec.update(pwm_before=num_s(getattr(m, 'pwm', 1)), tq_before=si_of(m.torque, 'Torque') if getattr(m, 'torque', None) is not None else N,
                   first=len(pt.time) + 1, epoch=1, pre_live=live_attrs(objs))
        _state['stop_log'] = []
        err = None
        try:
            return orig_run(self, time_discretization, simulation_time, motor_control=motor_control, stop_condition=stop_condition)
        except BaseException as e:         # noqa
            err = type(e).__name__
            raise
        finally:
            for o, f in restore:
                try:
                    o.external_torque = f
                except Exception:          # noqa
                    pass
            rec.update(outcome='ok' if err is None else err, last=len(pt.time), load=calls, live=live_attrs(objs), lens=hist_lens(pt),
                       stop_verdicts=_state['stop_log'], has_control=motor_control is not None, has_stop=stop_condition is not None)
            _state['stop_log'] = None
            if ok_args:
                tr['ops'].append(rec)
            else:
                tr['bad'] = True
    S.Solver.run = run


def _finalize():
    from harness import solver_rec
    out = []
    for n, key in enumerate(_state['order']):
        tr = _state['traces'][key]
        pt = tr['pt']
        if tr.get('bad') or not any(o['op'] == 'run' for o in tr['ops']):
            continue
        if len(pt.time) > MAX_INSTANTS or len(pt.time) == 0:
            continue
        if any(o['op'] == 'run' and o['outcome'] != 'ok' for o in tr['ops']):
            continue                                   # error-path tests: outside the statements about runs that return
        try:
            time, hist, kinds_ok = solver_rec.read_hist(pt)
            elems = solver_rec.static_desc(list(pt.elements))
        except Exception:                              # noqa
            continue
        for d in elems:
            d['rtype'] = 'none' if d['kind'] == 'DCMotor' else 'attr'
            d['arg'] = '1'
        out.append({'id': f'repo{n}', 'elems': elems, 'selfLocking': bool(pt.self_locking), 'load': {k: '0' for k in ('c0', 'c1', 'c2', 'c3', 'ts', 'cs')}, 'load_logged': True, 'ctrls': [], 'stops': [],
                    'ops': tr['ops'], 'epochs': [{'time': time, 'hist': hist, 'kinds_ok': kinds_ok}], 'family': 'repo-tests', 'presentation': 'tests'})
        if len(out) >= KEEP:
            break
    if OUT:
        with open(OUT, 'w') as f:
            for t in out:
                f.write(json.dumps(t) + '\n')


def pytest_configure(config):
    if OUT:
        _install()


def pytest_sessionfinish(session, exitstatus):
    if OUT:
        _finalize()
