"""C08 driver: real DCMotor.compute_torque / compute_electric_current vs Motor.tla."""
from __future__ import annotations
import math, random
from fractions import Fraction
from . import spectab
from .core import import_repo, rstr, Verdict, finish, run_tlc, require_ok
from .tv import validate
from .units_drv import outcome


def mk_motor(Tmax, w0, i0, imax, units=None, rnd=None):
    """constants given as SI floats; optionally expressed in other units (value = SI / factor)"""
    import_repo()
    from gearpy.mechanical_objects import DCMotor
    from gearpy.units import AngularSpeed, Torque, Current, InertiaMoment
    def q(cls, kind, si):
        u = spectab.si_unit(kind) if units is None else rnd.choice(spectab.units_of(kind))
        return cls(float(spectab.to_unit(Fraction(si), kind, u)), u)
    kw = {}
    if i0 is not None:
        kw['no_load_electric_current'] = q(Current, 'Current', i0)
        kw['maximum_electric_current'] = q(Current, 'Current', imax)
    m = DCMotor('m', InertiaMoment(1, 'kgm^2'), q(AngularSpeed, 'AngularSpeed', w0), q(Torque, 'Torque', Tmax), **kw)
    return m


def si(q, kind):
    v = q.value
    if isinstance(v, float) and (v != v or v in (float('inf'), float('-inf'))):
        return float(v)              # rstr spells it nan / inf / -inf; the spec rejects it as non-finite
    return spectab.to_si(Fraction(v), kind, q.unit)


def motor_consts(m):
    d = {'Tmax': rstr(si(m.maximum_torque, 'Torque')), 'w0': rstr(si(m.no_load_speed, 'AngularSpeed')), 'i0': 'null', 'imax': 'null'}
    if m.electric_current_is_computable:
        d['i0'] = rstr(si(m.no_load_electric_current, 'Current'))
        d['imax'] = rstr(si(m.maximum_electric_current, 'Current'))
    return d


def event(i, m, w, D, wunit='rad/s', tq_unit=None):
    from gearpy.units import AngularSpeed
    wq = AngularSpeed(float(spectab.to_unit(Fraction(w), 'AngularSpeed', wunit)), wunit)
    m.angular_speed = wq
    m.pwm = D
    e = {'id': f'm{i}', 'm': motor_consts(m), 'w': rstr(si(wq, 'AngularSpeed')), 'D': rstr(D)}
    _, err = outcome(m.compute_torque)
    if err is None:
        e['tq'] = {'ok': True, 'val': rstr(si(m.driving_torque, 'Torque')), 'err': ''}
    else:
        e['tq'] = {'ok': False, 'val': '0', 'err': err}
    e['cur'] = {'ok': True, 'val': '0', 'err': ''}
    if tq_unit is not None and err is None:
        # the same driving torque handed back through the public setter in another torque unit (the current law reads the torque
        # as a QUANTITY: its unit must not matter)
        m.driving_torque = m.driving_torque.to(tq_unit)
    if m.electric_current_is_computable and err is None:
        _, err2 = outcome(m.compute_electric_current)
        if err2 is None:
            e['cur'] = {'ok': True, 'val': rstr(si(m.electric_current, 'Current')), 'err': ''}
        else:
            e['cur'] = {'ok': False, 'val': '0', 'err': err2}
    return e


def neighbours(x, k=2):
    out = [x]
    lo = hi = x
    for _ in range(k):
        lo = math.nextafter(lo, -math.inf); hi = math.nextafter(hi, math.inf)
        out += [lo, hi]
    return out


def gen(tier, rnd):
    evs, i = [], 0
    motors = []
    base = [(0.01, 209.4, 0.1, 2.0), (2.0, 16.0, 0.0, 2.0), (0.5, 500.0, 0.009, 0.18), (5.0, 1000.0, 0.2, 5.0), (0.01, 209.4, None, None)]
    for c in base:
        motors.append((c, None))
    nrand = 12 if tier == 'quick' else 300
    for _ in range(nrand):
        imax = float(f'{rnd.uniform(0.05, 20):.3g}')
        i0 = float(f'{imax * rnd.uniform(0.005, 0.6):.3g}')
        c = (float(f'{rnd.uniform(1e-3, 50):.3g}'), float(f'{rnd.uniform(5, 3000):.4g}'), i0, imax)
        motors.append((c, 'units'))
    for (Tmax, w0, i0, imax), um in motors:
        m = mk_motor(Tmax, w0, i0, imax, um, rnd)
        Ds = {0, 1, -1, 0.5, -0.5, 0.05, -0.05, 1e-3, -1e-3, 0.999999, 1e-12}
        if i0 is not None:
            # the dead-zone boundary: the decimal quotient, the float quotient, and their neighbours
            b = i0 / imax
            bd = float(Fraction(str(i0)) / Fraction(str(imax)))
            for x in set(neighbours(b) + neighbours(bd)):
                if 0 <= x <= 1:
                    Ds.add(x); Ds.add(-x)
            Ds |= {b / 2, -b / 2, b * 1.5, -b * 1.5}
            if i0 == 0:
                Ds |= {5e-324, -5e-324, 1e-300}
        for _ in range(3 if tier == 'quick' else 12):
            Ds.add(float(f'{rnd.uniform(-1, 1):.6g}'))
        ws = [0.0, w0, -w0, 0.5 * w0, 2 * w0, -2.3 * w0, 1e-9]
        for _ in range(2 if tier == 'quick' else 6):
            ws.append(rnd.uniform(-2.5, 2.5) * w0)
        for D in sorted(d for d in Ds if -1 <= d <= 1):
            for w in ws:
                wunit = 'rad/s' if um is None else rnd.choice(spectab.units_of('AngularSpeed'))
                tq_unit = rnd.choice(spectab.units_of('Torque')) if (um is not None and rnd.random() < 0.5) else None
                evs.append(event(i, m, w, D, wunit, tq_unit)); i += 1
        # the law is a function of (w, D) alone: the same object asked again after other duty cycles - in particular after a
        # visit to the dead zone - must answer the same (live D -> dead zone -> the same D; random revisits)
        live = [d for d in Ds if -1 <= d <= 1 and (i0 is None or abs(d) > i0 / imax * 1.01) and d != 0]
        dead = [0.0] + ([i0 / imax / 2, -i0 / imax / 2] if i0 else [])
        for D in rnd.sample(live, min(len(live), 4 if tier == 'quick' else 12)):
            for z in dead:
                for Dx in (D, z, D, D):
                    evs.append(event(i, m, ws[1], Dx)); i += 1
        seq = [rnd.choice(live + dead) for _ in range(10 if tier == 'quick' else 40)]
        for Dx in seq + seq[::-1]:
            if um is not None and rnd.random() < 0.35:
                # the user re-expresses one of the motor's constants IN PLACE (the quantity object the motor holds, reached through
                # the public getter): the magnitudes have not changed, so neither has the characteristic
                attrs = [('maximum_torque', 'Torque'), ('no_load_speed', 'AngularSpeed')] + \
                        ([('no_load_electric_current', 'Current'), ('maximum_electric_current', 'Current')] if i0 is not None else [])
                a, kind = rnd.choice(attrs)
                getattr(m, a).to(rnd.choice(spectab.units_of(kind)), inplace=True)
            evs.append(event(i, m, rnd.choice(ws), Dx)); i += 1
    return evs


def anim_events(tier, rnd):
    """dc_motor_characteristics_animation on simulated powertrains (duty cycle varied by a control where one was drawn): every
    frame's line and marker read back from the figure, re-expressed in SI"""
    import matplotlib
    matplotlib.use('Agg')
    import matplotlib.pyplot as plt
    from gearpy.utils import dc_motor_characteristics_animation
    from . import snapshot_drv
    evs = []
    for i in range(6 if tier == 'quick' else 24):
        b = snapshot_drv.simulated(rnd, i)
        pt = b['pt']
        m = pt.elements[0]
        has = m.electric_current_is_computable
        for variant in range(2):
            ts, tc = (True, has) if variant == 0 else ((False, True) if has else (True, False))
            if variant == 1 and not has:
                continue
            uw, ut, ui = (rnd.choice(spectab.units_of(k)) for k in ('AngularSpeed', 'Torque', 'Current'))
            pad = rnd.choice([0, 0.1, 0.25, 1])
            plt.close('all')
            an, err = outcome(lambda: dc_motor_characteristics_animation(motor=m, time=pt.time, torque_speed_curve=ts, torque_current_curve=tc, angular_speed_unit=uw,
                                                                         torque_unit=ut, current_unit=ui, padding=pad, show=False))
            e = {'id': f'an{i}_{variant}', 'm': motor_consts(m), 'pad': rstr(pad), 'ts': ts, 'tc': tc, 'ok': err is None, 'err': err or '', 'frames': []}
            if err is None:
                fig = an._fig
                for j in range(len(pt.time)):
                    if j > 0:
                        an._func(j)                                   # the frame callback FuncAnimation was given (frames 1 .. n-1; frame 0 is the initial drawing)
                    tv = m.time_variables
                    fr = {'D': rstr(tv['pwm'][j]), 'w': rstr(si(tv['angular speed'][j], 'AngularSpeed')), 'T': rstr(si(tv['driving torque'][j], 'Torque')),
                          'I': rstr(si(tv['electric current'][j], 'Current')) if has else 'null', 'ts': [], 'tc': []}
                    axes = list(fig.axes)
                    for key, on, ax, kind, ux in (('ts', ts, axes[0], 'AngularSpeed', uw), ('tc', tc, axes[-1], 'Current', ui)):
                        if not on:
                            continue
                        ln = [l for l in ax.get_lines() if len(l.get_xdata()) == 2 and l.get_marker() in ('None', None, '') and l.get_linewidth() != 0.5]
                        mk = [l for l in ax.get_lines() if l.get_marker() == 'o']
                        if len(ln) != 1 or len(mk) != 1:
                            e['ok'], e['err'] = False, 'figure-layout'
                            continue
                        X = lambda x, kind=kind, ux=ux: rstr(spectab.to_si(Fraction(float(x)), kind, ux))
                        Y = lambda y: rstr(spectab.to_si(Fraction(float(y)), 'Torque', ut))
                        xs, ys = ln[0].get_xdata(), ln[0].get_ydata()
                        px, py = mk[0].get_xdata(), mk[0].get_ydata()
                        px = px[0] if hasattr(px, '__len__') else px
                        py = py[0] if hasattr(py, '__len__') else py
                        fr[key] = [X(xs[0]), X(xs[1]), Y(ys[0]), Y(ys[1]), X(px), Y(py)]
                    e['frames'].append(fr)
            plt.close('all')
            evs.append(e)
    return evs


def _f18(case):
    """non-finite output *because* the quotient w/(D*w0) overflows a double (denormal duty cycle)"""
    from .core import frac
    e = case.get('event', {})
    if not set(case.get('clauses', [])) <= {'TorqueNonFinite', 'CurrentNonFinite'}:
        return False
    D, w, w0 = frac(e['D']), frac(e['w']), frac(e['m']['w0'])
    if D == 0:
        return False
    return abs(w / (D * w0)) > Fraction(17976931348623157 * 10**292)


def run_C08(tier, seed):
    v = Verdict('C08', tier, seed)
    rnd = random.Random(seed)
    r = run_tlc('MC_Motor', 'MC_Motor.cfg', workers=1)
    require_ok(r, 'MC_Motor')
    v.extra['mc_motor'] = 'documented consequences (standstill, no-load, continuity at the dead-zone boundary, oddness, dead zone) hold exactly on the rational grid'
    evs = gen(tier, rnd)
    res = validate('Trace_Motor', evs)
    v.states, v.transitions = res.states, res.transitions
    v.traces = v.evaluations = len(evs)
    byid = {e['id']: e for e in evs}
    for tid, fails in res.fails.items():
        if fails:
            v.violation({'clauses': fails, 'event': byid[tid]})
    # growth beyond C08 (notes, never a verdict): the frames of dc_motor_characteristics_animation against the same Motor.tla
    aev = anim_events(tier, random.Random(seed + 7))
    ares = validate('Trace_Motor', aev, shards=1)
    v.states += ares.states; v.transitions += ares.transitions
    v.extra['animation_figures'] = len(aev)
    v.extra['animation_frames'] = sum(len(e['frames']) for e in aev)
    v.extra['animation_mismatches'] = [{'id': t, 'clauses': f} for t, f in ares.fails.items() if f]
    v.distinct = len({(str(e['m']), e['w'], e['D']) for e in evs})
    v.rule = ('motor constants (fixed set incl. i0 = 0, no current data; seeded random constants expressed in random units) x duty cycles '
              '{0, +-1, grid, the dead-zone boundary as decimal and as float quotient, their +-1,+-2 ulp neighbours, half / 1.5x boundary, random} x speeds '
              '{0, +-w0, 2w0, beyond, random} in random speed units; distinct = distinct (constants, w, D)')
    v.sample(evs[0]); v.sample(evs[len(evs) // 2])
    v.assumptions = ['branch taken within 1e-10 (relative) of the dead-zone boundary is not judged; both laws are continuous there and the value is still checked']
    # the same law as the SOLVER records it: motor current of every recorded instant of the shared campaign
    from . import solver_drv
    solver_drv.campaign_part(v, 'C08', tier, seed, 'recorded motor current at every recorded instant against Motor.tla evaluated with the recorded driving torque and duty cycle '
                             '(SolverOps!CurrentFails); the motor torque itself is C02\'s DriveMotor clause')
    return finish(v, {'F18': _f18})
