"""Builds real gearpy powertrains from an abstract instance, executes a schedule of public calls and records
everything observable through public API (post hoc histories, live attributes, call-outs into harness-owned
objects).  No decision is taken here: Trace_Solver.tla decides.

Abstract instance (all magnitudes SI, as exact Fractions or strings accepted by Fraction):
  elems : list of dicts; elems[0] is the motor
     motor : kind='DCMotor', J, Tmax, w0, i0|None, imax|None
     others: kind in Flywheel|SpurGear|HelicalGear|WormGear|WormWheel, J, teeth (starts for a worm),
             rel={'type': 'joint'|'gear'|'worm', 'arg': efficiency | friction | None},
             module|None, b|None, E|None, helix_deg|None, alpha_deg|None, dref|None
  load  : dict c0,c1,c2,c3,ts,cs  ->  Tl = c0 + c1*w + c2*th + c3*t + (cs if t >= ts else 0)   [Nm; rad/s; rad; s]
  ops   : list of schedule operations (see execute())
  units : None (SI presentation) or a random.Random used to pick a unit for every input quantity
"""
from __future__ import annotations
import os
import math
from fractions import Fraction
from . import spectab
from .core import import_repo, rstr, Machinery
from .units_drv import outcome

N = 'null'
VARS = ['angular position', 'angular speed', 'angular acceleration', 'torque', 'driving torque', 'load torque',
        'tangential force', 'bending stress', 'contact stress', 'electric current']
KIND_OF_VAR = {'angular position': 'AngularPosition', 'angular speed': 'AngularSpeed', 'angular acceleration': 'AngularAcceleration',
               'torque': 'Torque', 'driving torque': 'Torque', 'load torque': 'Torque', 'tangential force': 'Force',
               'bending stress': 'Stress', 'contact stress': 'Stress', 'electric current': 'Current'}
ATTR_OF_VAR = {'angular position': 'angular_position', 'angular speed': 'angular_speed', 'angular acceleration': 'angular_acceleration',
               'torque': 'torque', 'driving torque': 'driving_torque', 'load torque': 'load_torque', 'tangential force': 'tangential_force',
               'bending stress': 'bending_stress', 'contact stress': 'contact_stress', 'electric current': 'electric_current'}
KEY = {v: v.replace(' ', '_') for v in VARS}


class Q:
    """quantity factory: SI magnitude -> real gearpy quantity in the unit chosen for this presentation"""

    def __init__(self, rnd=None):
        self.rnd = rnd
        self.used = set()          # (kind, unit) pairs actually used for input quantities (coverage evidence for C07)
        import_repo()
        import gearpy.units as U
        self.U = U

    def __call__(self, kind, si, unit=None):
        cls = getattr(self.U, kind)
        if unit is None:
            unit = spectab.si_unit(kind) if self.rnd is None else self.rnd.choice(spectab.units_of(kind))
        self.used.add((kind, unit))
        v = spectab.to_unit(Fraction(si), kind, unit)
        f = float(v)
        if v.denominator == 1 and abs(v) < 2**53 and self.rnd is not None and self.rnd.random() < 0.3:
            f = int(v)                      # ints are legal values too
        return cls(f, unit)


def si_of(q, kind=None):
    """exact SI magnitude (as a spec string) of a real quantity"""
    if q is None:
        return N
    kind = kind or type(q).__name__
    v = q.value
    if isinstance(v, float) and (v != v or abs(v) == float('inf')):
        return rstr(v)
    return rstr(spectab.to_si(Fraction(v), kind, q.unit))


def num_s(x):
    if x is None:
        return N
    return rstr(x)


def build(inst, rnd=None):
    """-> dict(objs=[...], powertrain, motor, loadfn, calls(list))"""
    import_repo()
    from gearpy.mechanical_objects import DCMotor, Flywheel, SpurGear, HelicalGear, WormGear, WormWheel
    from gearpy.utils import add_gear_mating, add_worm_gear_mating, add_fixed_joint
    from gearpy.powertrain import Powertrain
    from gearpy.units import Torque
    q = Q(rnd)
    objs = []
    for i, e in enumerate(inst['elems']):
        k = e['kind']
        J = q('InertiaMoment', e['J'])
        name = e.get('name', f'e{i}')
        if k == 'DCMotor':
            kw = {}
            if e.get('i0') is not None:
                kw['no_load_electric_current'] = q('Current', e['i0'])
            if e.get('imax') is not None:
                kw['maximum_electric_current'] = q('Current', e['imax'])       # (either datum alone is legal: the current is then not computable)
            o = DCMotor(name, J, q('AngularSpeed', e['w0']), q('Torque', e['Tmax']), **kw)
        elif k == 'Flywheel':
            o = Flywheel(name, J)
        else:
            mod = q('Length', e['module']) if e.get('module') is not None else None
            b = q('Length', e['b']) if e.get('b') is not None else None
            E = q('Stress', e['E']) if e.get('E') is not None else None
            # worm pressure angles are given in degrees (exact table keys); other units are C07's subject (F5)
            ang = lambda deg, free=True: q('Angle', Fraction(deg) * spectab.factor('Angle', 'deg'), None if free else 'deg')
            if k == 'SpurGear':
                o = SpurGear(name, e['teeth'], J, module=mod, face_width=b, elastic_modulus=E)
            elif k == 'HelicalGear':
                o = HelicalGear(name, e['teeth'], J, ang(e['helix_deg']), module=mod, face_width=b, elastic_modulus=E)
            elif k == 'WormGear':
                dref = q('Length', e['dref']) if e.get('dref') is not None else None
                o = WormGear(name, e['teeth'], J, ang(e['helix_deg']), ang(e['alpha_deg'], inst.get('free_alpha_unit', False)), reference_diameter=dref)
            elif k == 'WormWheel':
                o = WormWheel(name, e['teeth'], J, ang(e['helix_deg']), ang(e['alpha_deg'], inst.get('free_alpha_unit', False)), module=mod, face_width=b)
            else:
                raise Machinery('kind ' + k)
        objs.append(o)
    def declare(i, arg=None):
        r = inst['elems'][i]['rel']
        a = r['arg'] if arg is None else arg
        num = None if a is None else (float(Fraction(a)) if Fraction(a).denominator != 1 else int(Fraction(a)))
        if r['type'] == 'joint':
            add_fixed_joint(objs[i - 1], objs[i])
        elif r['type'] == 'gear':
            add_gear_mating(objs[i - 1], objs[i], num)
        else:
            add_worm_gear_mating(objs[i - 1], objs[i], num)
    # relations that are declared first and then superseded by the final ones (a design revision): a spur gear without
    # tooth data that is finally on a fixed joint is first made the slave of a temporary gear of another size (efficiency 1)
    for i in inst.get('pre_declare', []):
        tmp = SpurGear(f'tmp{i}', objs[i].n_teeth + 7, q('InertiaMoment', 1))
        add_gear_mating(tmp, objs[i], 1)
    # a friction sweep on the same objects BEFORE assembly: a worm mating is first declared with another friction coefficient (on
    # either side of the self-locking threshold), then with the final one - the final declaration is the one in force
    for i, f0 in (inst.get('pre_worm') or {}).items():
        try:
            declare(int(i), f0)
        except ValueError:
            pass                            # (a first friction that is refused changes nothing)
    # the final relations, in the order the instance asks for (any order builds the same chain)
    for i in inst.get('decl_order') or range(1, len(objs)):
        declare(i)
    ld = {k: float(Fraction(v)) for k, v in inst['load'].items()}
    calls = []
    pt_holder = []
    tq_unit = 'Nm' if rnd is None else rnd.choice(spectab.units_of('Torque'))

    def external_torque(time, angular_position, angular_speed):
        t = time.to('sec').value
        th = angular_position.to('rad').value
        w = angular_speed.to('rad/s').value
        val = ld['c0'] + ld['c1'] * w + ld['c2'] * th + ld['c3'] * t + (ld['cs'] if t >= ld['ts'] else 0.0)
        if inst.get('numpy'):
            import numpy as np
            val = np.float64(val)              # load functions written with numpy (np.sin, np.exp ...) return numpy scalars: the
                                               # documentation's own examples do; every derived quantity then holds numpy scalars
        cyc = inst.get('load_unit_cycle')
        # a load function may answer in whatever torque unit it likes, and not in the same one every time (a look-up table in
        # mNm for one regime, a formula in Nm for another): the histories then hold samples of mixed units
        ret = Torque(val, 'Nm').to(cyc[len(calls) % len(cyc)] if cyc else tq_unit)
        calls.append({'at': len(pt_holder[0].time) if pt_holder else 0, 't': si_of(time, 'Time'), 'pos': si_of(angular_position), 'spd': si_of(angular_speed),
                      'ret': si_of(ret)})
        return ret
    if inst.get('load_on', 'last') == 'last':
        objs[-1].external_torque = external_torque
    # further external torques on gears that are NOT the last element (the library lets such a load REPLACE what comes up from
    # downstream: the element's load torque is then its own function's value)
    def _extra(ld2):
        def f(time, angular_position, angular_speed):
            t = time.to('sec').value
            th = angular_position.to('rad').value
            w = angular_speed.to('rad/s').value
            return Torque(ld2['c0'] + ld2['c1'] * w + ld2['c2'] * th + ld2['c3'] * t, 'Nm').to(tq_unit)
        return f
    for i_str, ldp in (inst.get('extra_loads') or {}).items():
        objs[int(i_str)].external_torque = _extra({k: float(Fraction(v)) for k, v in ldp.items()})
    pt = Powertrain(objs[0])
    pt_holder.append(pt)
    # a SECOND layout declared from shared elements after this powertrain was assembled: the driver of element i is mated with
    # another gear (its `drives` link now points elsewhere); this powertrain's element tuple and relations are what they were
    for i in inst.get('fork_after_build', []):
        other = SpurGear(f'fork{i}', objs[i].n_teeth + 3, q('InertiaMoment', 1))
        add_gear_mating(objs[i - 1], other, 1)
    return dict(objs=objs, pt=pt, motor=objs[0], calls=calls, q=q, declare=declare, numpy=bool(inst.get('numpy')))


# ------------------------------------------------------------------ static description as the real objects hold it
def static_desc(objs):
    from gearpy.mechanical_objects import DCMotor, Flywheel, SpurGear, HelicalGear, WormGear, WormWheel, MatingMaster, MatingSlave
    out = []
    for o in objs:
        d = {'kind': type(o).__name__, 'name': o.name, 'J': si_of(o.inertia_moment), 'teeth': 0, 'module': N, 'b': N, 'E': N,
             'th': '0', 'alpha': N, 'dref': N, 'role': 'none', 'hasCurrent': False,
             'ratioAttr': N, 'effAttr': '1', 'sl': N, 'adv': sorted(KEY[v] if v != 'pwm' else 'pwm' for v in o.time_variables.keys())}
        if isinstance(o, DCMotor):
            both = o.no_load_electric_current is not None and o.maximum_electric_current is not None      # (from the data, not from the derived flag)
            d.update(Tmax=si_of(o.maximum_torque), w0=si_of(o.no_load_speed), hasCurrent=bool(both),
                     i0=si_of(o.no_load_electric_current) if both else N,
                     imax=si_of(o.maximum_electric_current) if both else N)
        else:
            d['ratioAttr'] = num_s(o.master_gear_ratio)
            d['effAttr'] = num_s(o.master_gear_efficiency)
        if isinstance(o, WormGear):
            d['teeth'] = o.n_starts
            d['th'] = rstr(math.tan(o.helix_angle.to('rad').value / 2))
            d['alpha'] = si_of(o.pressure_angle, 'Angle')
            d['dref'] = si_of(o.reference_diameter) if o.reference_diameter is not None else N
            d['sl'] = N if o.self_locking is None else ('true' if o.self_locking else 'false')
        elif isinstance(o, SpurGear):
            d['teeth'] = o.n_teeth
            d['module'] = si_of(o.module) if o.module is not None else N
            d['b'] = si_of(o.face_width) if o.face_width is not None else N
            d['E'] = si_of(o.elastic_modulus) if o.elastic_modulus is not None else N
            if isinstance(o, HelicalGear):
                d['th'] = rstr(math.tan(o.helix_angle.to('rad').value / 2))
            if isinstance(o, WormWheel):
                d['alpha'] = si_of(o.pressure_angle, 'Angle')
        role = getattr(o, 'mating_role', None)
        d['role'] = 'master' if role is MatingMaster else 'slave' if role is MatingSlave else 'none'
        out.append(d)
    return out


def live_attrs(objs):
    from gearpy.mechanical_objects import DCMotor
    out = []
    for o in objs:
        d = {}
        for v in VARS:
            a = ATTR_OF_VAR[v]
            try:
                val = getattr(o, a)
            except AttributeError:
                val = None
            d[KEY[v]] = si_of(val, KIND_OF_VAR[v]) if val is not None else N
        d['pwm'] = num_s(o.pwm) if isinstance(o, DCMotor) else N
        out.append(d)
    return out


def read_hist(pt):
    """post hoc: the public time axis and time_variables of every element, in SI"""
    time = [si_of(t, 'Time') for t in pt.time]
    hist = []
    kinds_ok = True
    for o in pt.elements:
        d = {}
        for name, lst in o.time_variables.items():
            if name == 'pwm':
                d['pwm'] = [num_s(x) if (x is None or isinstance(x, (int, float))) else '0' for x in lst]
                kinds_ok = kinds_ok and all(x is None or isinstance(x, (int, float)) for x in lst)
                continue
            kind = KIND_OF_VAR[name]
            vals = []
            for x in lst:
                if x is None:
                    vals.append(N)
                    continue
                if type(x).__name__ != kind and not (kind == 'AngularPosition' and type(x).__name__ == 'Angle'):
                    # a sample of ANOTHER kind in this history (RectKinds fails): the record keeps a 0 in its place so that the other clauses stay evaluable
                    kinds_ok = False
                    vals.append('0')
                    continue
                vals.append(si_of(x, kind))
            d[KEY[name]] = vals
        hist.append(d)
    return time, hist, kinds_ok


# ------------------------------------------------------------------ harness-owned call-outs
def make_traced(pt, holder):
    """holder: {'events': {...}} - the per-run event lists are swapped in by execute(), so control / sensor objects can be
    reused across runs (repeating a schedule reuses the same objects)"""
    import_repo()
    from gearpy.motor_control import PWMControl
    from gearpy.motor_control.rules.rules_base import RuleBase
    from gearpy.sensors.sensor_base import SensorBase

    class TracedRule(RuleBase):
        def __init__(self, inner, idx):
            super().__init__()
            self.inner, self.idx = inner, idx

        def apply(self):
            try:
                r = self.inner.apply()
            except Exception as e:          # noqa
                holder['events']['rule'].append({'at': len(pt.time), 'idx': self.idx, 'ret': N, 'raised': type(e).__name__})
                raise
            holder['events']['rule'].append({'at': len(pt.time), 'idx': self.idx, 'ret': N if r is None else num_s(float(r) if not isinstance(r, int) else r), 'raised': ''})
            return r

    class CustomRule(RuleBase):
        """harness rule proposing a scripted value per instant (None = not applicable); values may lie far outside [-1, 1]"""
        def __init__(self, script):
            super().__init__()
            self.script = script

        def apply(self):
            k = len(pt.time) - 1
            return self.script[k % len(self.script)]

    class TracedSensor(SensorBase):
        def __init__(self, inner, kind):
            self.inner, self.kind = inner, kind

        @property
        def target(self):
            return self.inner.target

        def get_value(self, unit=None):
            v = self.inner.get_value(unit) if unit is not None else self.inner.get_value()
            holder['events']['sensor'].append({'at': len(pt.time), 'ret': si_of(v, self.kind) if unit is None else num_s(v),
                                               'unit': str(getattr(v, 'unit', ''))})
            return v

    class TracedPWMControl(PWMControl):
        def apply_rules(self):
            try:
                super().apply_rules()
            except Exception as e:          # noqa
                holder['events']['control'].append({'at': len(pt.time), 'pwm': N, 'raised': type(e).__name__})
                raise
            holder['events']['control'].append({'at': len(pt.time), 'pwm': num_s(pt.elements[0].pwm), 'raised': ''})

    return TracedRule, CustomRule, TracedSensor, TracedPWMControl


def _make_rule(b, r, idx, holder):
    from gearpy.motor_control.rules import ConstantPWM, ReachAngularPosition, StartLimitCurrent, StartProportionalToAngularPosition
    from gearpy.sensors import AbsoluteRotaryEncoder, Tachometer, Timer
    pt, q, objs = b['pt'], b['q'], b['objs']
    TracedRule, CustomRule, TracedSensor, TracedPWMControl = make_traced(pt, holder)
    t = r['type']
    if t == 'const':
        v = Fraction(r['val'])
        inner = ConstantPWM(Timer(q('Time', r['start']), q('TimeInterval', r['dur'])), pt, int(v) if v.denominator == 1 else float(v))
    elif t == 'reach':
        inner = ReachAngularPosition(AbsoluteRotaryEncoder(objs[r['el']]), pt, q('AngularPosition', r['target']), q('Angle', r['brake']))
    elif t == 'startprop':
        inner = StartProportionalToAngularPosition(AbsoluteRotaryEncoder(objs[r['el']]), pt, q('AngularPosition', r['target']),
                                                   float(Fraction(r['mult'])), None if r.get('pmin') is None else float(Fraction(r['pmin'])))
    elif t == 'startlim':
        inner = StartLimitCurrent(AbsoluteRotaryEncoder(objs[r['el']]), Tachometer(objs[r['el_tach']]), objs[0],
                                  q('AngularPosition', r['target']), q('Current', r['ilim']))
    elif t == 'custom':
        inner = CustomRule([None if x is None else (int(Fraction(x)) if Fraction(x).denominator == 1 else float(Fraction(x))) for x in r['script']])
    else:
        raise Machinery('rule ' + t)
    return TracedRule(inner, idx)


def make_control(b, rules, holder, extend=None, n_existing=0):
    """a traced PWMControl with `rules`; or, with extend = an existing control object, the SAME object with the rules beyond the first
    n_existing added to it (a control that grows between runs)"""
    pt = b['pt']
    if extend is None:
        _, _, _, TracedPWMControl = make_traced(pt, holder)
        ctl = TracedPWMControl(pt)
    else:
        ctl = extend
    for idx, r in enumerate(rules, 1):
        if idx > n_existing:
            ctl.add_rule(_make_rule(b, r, idx, holder))
    return ctl


def make_stop(b, s, holder):
    from gearpy.sensors import AbsoluteRotaryEncoder, Tachometer, Amperometer
    from gearpy.utils import StopCondition
    pt, q, objs = b['pt'], b['q'], b['objs']
    _, _, TracedSensor, _ = make_traced(pt, holder)
    kind = {'enc': 'AngularPosition', 'tach': 'AngularSpeed', 'amp': 'Current'}[s['sensor']]
    inner = {'enc': AbsoluteRotaryEncoder, 'tach': Tachometer, 'amp': Amperometer}[s['sensor']](objs[s['el']])
    op = {'gt': StopCondition.greater_than, 'ge': StopCondition.greater_than_or_equal_to, 'eq': StopCondition.equal_to,
          'lt': StopCondition.less_than, 'le': StopCondition.less_than_or_equal_to}[s['op']]
    thr = q(kind, s['thr'], s.get('thr_unit'))
    if b.get('numpy'):
        import numpy as np
        thr = type(thr)(np.float64(thr.value), thr.unit)        # a threshold taken from a numpy array
    return StopCondition(sensor=TracedSensor(inner, kind), threshold=thr, operator=op), si_of(thr, kind), thr


def _tables_never_fail(pt):
    """C17's consequence, observed after every run that returned: a snapshot at the first, at the last and between the last two
    recorded instants, and an export of all histories, must not raise (sensor / rule events of these calls are not logged)"""
    import contextlib, io, shutil, tempfile
    from gearpy.units import Time
    errs = []
    t0, t1, t2 = pt.time[0], pt.time[-1], pt.time[-2]
    mid = Time((t1.to('sec').value + t2.to('sec').value) / 2, 'sec')
    for tq in (t1, t0, mid):
        with contextlib.redirect_stdout(io.StringIO()):
            _, e = outcome(lambda: pt.snapshot(target_time=tq, print_data=False))
        errs.append(e or '')
    d = tempfile.mkdtemp(prefix='verif-c17-')
    try:
        _, e = outcome(lambda: pt.export_time_variables(folder_path=os.path.join(d, 'out')))
    finally:
        shutil.rmtree(d, ignore_errors=True)
    return {'snap': errs, 'export': e or ''}


def _snap_tables(pt):
    """snapshot tables in default units at (up to 40 of) the recorded instants and between the last two: per element {column: [one value per queried instant]}"""
    import contextlib, io
    from gearpy.units import Time
    t1, t2 = pt.time[-1], pt.time[-2]
    mid = Time((t1.to('sec').value + t2.to('sec').value) / 2, 'sec')
    out = [dict() for _ in pt.elements]
    n = len(pt.time)
    idx = list(range(n)) if n <= 40 else sorted({round(k * (n - 1) / 39) for k in range(40)})
    targets = [pt.time[k] for k in idx] + [mid]        # (a column's samples along the history share the history's scale: a zero crossing is not an alarm)
    for tq in targets:
        with contextlib.redirect_stdout(io.StringIO()):
            df, e = outcome(lambda: pt.snapshot(target_time=tq, print_data=False))
        if e is not None:
            return []
        for i, o in enumerate(pt.elements):
            for c in df.columns:
                try:
                    f = float(df.loc[o.name, c])
                except (TypeError, ValueError, KeyError):
                    continue
                if f == f and abs(f) != float('inf'):
                    out[i].setdefault('snap ' + str(c), []).append(rstr(f))
    return [{k: v for k, v in d.items() if len(v) == len(targets)} for d in out]


class RunawayRun(Exception):
    """raised by the harness when a run records far more instants than requested (or takes far too long)"""


def _bounded(fn, pt, op, seconds=20):
    """Run fn under a wall-clock alarm and an instant-count bound: a run that goes far beyond its requested
    duration (mixed raw time units, F2) must not take the campaign down."""
    import signal
    limit = len(pt.time) + 50 * (int(Fraction(op['T']) / Fraction(op['dt'])) + 2)
    orig_update = pt.update_time

    def on_alarm(signum, frame):
        raise RunawayRun('wall clock')
    def guarded_update(instant):
        if len(pt.time) >= limit:
            raise RunawayRun('instant count')
        return orig_update(instant)
    old = signal.signal(signal.SIGALRM, on_alarm)
    signal.setitimer(signal.ITIMER_REAL, seconds)
    pt.update_time = guarded_update          # instance attribute shadows the method for the duration of the run
    try:
        return fn()
    finally:
        signal.setitimer(signal.ITIMER_REAL, 0)
        signal.signal(signal.SIGALRM, old)
        del pt.update_time


def hist_lens(pt):
    return [{(KEY[k] if k != 'pwm' else 'pwm'): len(v) for k, v in o.time_variables.items()} for o in pt.elements]


def execute(tid, inst, rnd=None):
    """Runs inst['ops'] on freshly built real objects; returns the trace record."""
    from gearpy.solver import Solver
    b = build(inst, rnd)
    objs, pt, q = b['objs'], b['pt'], b['q']
    solvers = {}
    recs = []
    epochs = []
    holder = {'events': {'rule': [], 'control': [], 'sensor': []}}
    ctl_cache, stop_cache = {}, {}
    elems_by_epoch = []

    def elems_now():
        elems = static_desc(objs)
        for i, d in enumerate(elems):
            r = inst['elems'][i].get('rel')
            d['rtype'] = r['type'] if r else 'none'
            d['arg'] = '1' if not r or r.get('arg') is None else rstr(float(Fraction(r['arg'])) if Fraction(r['arg']).denominator != 1 else int(Fraction(r['arg'])))
        return elems

    def close_epoch():
        time, hist, kinds_ok = read_hist(pt)
        epochs.append({'time': time, 'hist': hist, 'kinds_ok': kinds_ok})
        if inst.get('record_snap') and len(pt.time) >= 2:
            epochs[-1]['snap'] = _snap_tables(pt)          # C07: the tables, too, are results (compared between presentations)
        elems_by_epoch.append(elems_now())          # relations may be re-declared between epochs
    for op in inst['ops']:
        k = op['op']
        rec = {'op': k}
        if k == 'set_initial':
            if 'pos_unit' not in op:            # chosen once per schedule entry: re-applying the initial conditions re-applies THESE
                op['pos_unit'] = q('AngularPosition', 1).unit
                op['spd_unit'] = q('AngularSpeed', 1).unit
            objs[-1].angular_position = q('AngularPosition', op['pos'], op['pos_unit'])
            objs[-1].angular_speed = q('AngularSpeed', op['spd'], op['spd_unit'])
            rec.update(pos=si_of(objs[-1].angular_position), spd=si_of(objs[-1].angular_speed))
        elif k == 'new_solver':
            solvers[op['sid']] = Solver(pt)
            rec['sid'] = op['sid']
        elif k == 'redeclare':
            # the same mating declared again with another efficiency / friction (an efficiency sweep on a live model)
            b['declare'](op['i'], op['arg'])
            inst['elems'][op['i']]['rel'] = dict(inst['elems'][op['i']]['rel'], arg=op['arg'])
            rec.update(i=op['i'] + 1, arg=str(op['arg']))
        elif k == 'set_pwm':
            v = Fraction(op['v'])
            objs[0].pwm = int(v) if v.denominator == 1 else float(v)
            rec['v'] = num_s(objs[0].pwm)
        elif k == 'run':
            events = {'rule': [], 'control': [], 'sensor': []}
            holder['events'] = events
            b['calls'].clear()
            dt = q('TimeInterval', op['dt'], op.get('dt_unit'))
            T = q('TimeInterval', op['T'], op.get('T_unit'))
            ctl = None
            if op.get('ctrl') is not None:
                if op['ctrl'] not in ctl_cache:
                    base = inst.get('ctrl_extends', {}).get(op['ctrl'])
                    if base is not None and base in ctl_cache:
                        ctl_cache[op['ctrl']] = make_control(b, inst['ctrls'][op['ctrl']], holder, extend=ctl_cache[base], n_existing=len(inst['ctrls'][base]))
                    else:
                        ctl_cache[op['ctrl']] = make_control(b, inst['ctrls'][op['ctrl']], holder)
                ctl = ctl_cache[op['ctrl']]
            stop, thr, thr_unit = None, N, ''
            if op.get('stop') is not None:
                if op['stop'] not in stop_cache:
                    st, th, thq = make_stop(b, inst['stops'][op['stop']], holder)
                    stop_cache[op['stop']] = (st, th, str(thq.unit))         # (the unit the threshold was GIVEN in)
                stop, thr, thr_unit = stop_cache[op['stop']]
            rec.update(sid=op['sid'], dt=si_of(dt, 'Time'), T=si_of(T, 'Time'), dt_unit=dt.unit, T_unit=T.unit,
                       ctrl=0 if op.get('ctrl') is None else op['ctrl'] + 1, stop=0 if op.get('stop') is None else op['stop'] + 1, thr=thr, thr_unit=thr_unit,
                       pwm_before=num_s(objs[0].pwm), tq_before=si_of(objs[0].torque, 'Torque') if objs[0].torque is not None else N,
                       first=len(pt.time) + 1, epoch=len(epochs) + 1, pre_live=live_attrs(objs))
            _, err = outcome(lambda: _bounded(lambda: solvers[op['sid']].run(dt, T, motor_control=ctl, stop_condition=stop), pt, op))
            rec.update(outcome='ok' if err is None else err, last=len(pt.time), load=list(b['calls']), elems=elems_now(),
                       rule=events['rule'], control=events['control'], sensor=events['sensor'],
                       live=live_attrs(objs), lens=hist_lens(pt))
            if err is None and len(pt.time) >= 2:
                rec.update(_tables_never_fail(pt))
        elif k == 'reset':
            close_epoch()
            _, err = outcome(pt.reset)
            rec.update(outcome='ok' if err is None else err, live=live_attrs(objs), n_time=len(pt.time), lens=hist_lens(pt), epoch=len(epochs))
        else:
            raise Machinery('op ' + k)
        recs.append(rec)
        if rec.get('outcome', 'ok') != 'ok':
            # a call that raised leaves the powertrain half-updated (time one longer than the histories); every listed
            # property speaks about sequences of calls that return, so the schedule ends here
            break
    close_epoch()
    elems = elems_now()
    return {'id': tid, 'elems': elems, 'selfLocking': bool(pt.self_locking),
            'load': {k: rstr(float(Fraction(v))) for k, v in inst['load'].items()},
            'ctrls': [[_rule_desc(r, b) for r in rules] for rules in inst.get('ctrls', [])],
            'stops': [dict(s, thr=str(s['thr'])) for s in inst.get('stops', [])],
            'extra_loads': [{'el': int(i) + 1, 'ld': {k: rstr(float(Fraction(v))) for k, v in ldp.items()}} for i, ldp in sorted((inst.get('extra_loads') or {}).items())],
            'ops': recs, 'epochs': epochs, 'elems_by_epoch': elems_by_epoch, 'units_used': sorted(f'{k}:{u}' for k, u in q.used)}


def _rule_desc(r, b):
    """rule parameters as spec strings (SI); element indexes become 1-based"""
    d = {'type': r['type'], 'start': '0', 'dur': '0', 'val': '0', 'el': 1, 'el_tach': 1, 'target': '0', 'brake': '0', 'mult': '0',
         'pmin': N, 'ilim': '0', 'script': []}
    for k in ('start', 'dur', 'val', 'target', 'brake', 'mult', 'ilim'):
        if k in r:
            d[k] = rstr(float(Fraction(r[k]))) if k not in ('val',) else rstr(Fraction(r[k]))
    if r.get('pmin') is not None:
        d['pmin'] = rstr(float(Fraction(r['pmin'])))
    if 'el' in r:
        d['el'] = r['el'] + 1
    if 'el_tach' in r:
        d['el_tach'] = r['el_tach'] + 1
    if 'script' in r:
        d['script'] = [N if x is None else rstr(Fraction(x)) for x in r['script']]
    return d
