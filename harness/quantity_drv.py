"""C06 / C19 drivers: binary operations over all kind pairs and straight-line programs over
real gearpy quantities; Trace_Quantity.tla decides."""
from __future__ import annotations
import random
from fractions import Fraction
from . import spectab
from .core import import_repo, rstr, Verdict, finish, Machinery, run_tlc, require_ok
from .tv import validate
from .units_drv import qclass, outcome, legal

OPF = {'+': lambda a, b: a + b, '-': lambda a, b: a - b, '*': lambda a, b: a * b, '/': lambda a, b: a / b}
KINDS_NUM = ['int', 'float']


def is_q(x):
    import gearpy.units as U
    return isinstance(x, U.UnitBase)


def desc_operand(x):
    if is_q(x):
        return {'kind': type(x).__name__, 'unit': x.unit, 'val': rstr(x.value)}
    return {'kind': 'Number', 'unit': '', 'val': rstr(x)}


def desc_out(res, err, slot=0):
    if err is not None:
        return {'t': 'raise', 'err': err, 'kind': '', 'unit': '', 'val': '0', 'slot': 0}
    if res is None:
        return {'t': 'raise', 'err': 'ReturnedNone', 'kind': '', 'unit': '', 'val': '0', 'slot': 0}
    if is_q(res):
        return {'t': 'ret', 'kind': type(res).__name__, 'unit': res.unit, 'val': rstr(res.value), 'slot': slot}
    if isinstance(res, (int, float)) and not isinstance(res, bool):
        return {'t': 'ret', 'kind': 'Number', 'unit': '', 'val': rstr(res), 'slot': 0}
    return {'t': 'raise', 'err': 'Returned' + type(res).__name__, 'kind': '', 'unit': '', 'val': '0', 'slot': 0}


def mk(kind, unit, val):
    if kind in ('int', 'float', 'Number'):
        return val
    return qclass(kind)(val, unit)


def binop_event(i, op, a, b):
    res, err = outcome(lambda: OPF[op](a, b))
    return {'id': f'b{i}', 'ev': 'binop', 'op': op, 'a': desc_operand(a), 'b': desc_operand(b), 'out': desc_out(res, err)}


def laws_event(i, a, b):
    r1, e1 = outcome(lambda: (a + b) - b)
    r2, e2 = outcome(lambda: a - b)
    r3, e3 = outcome(lambda: -(b - a))
    return {'id': f'l{i}', 'ev': 'laws', 'a': desc_operand(a), 'b': desc_operand(b),
            'r1': desc_out(r1, e1), 'r2': desc_out(r2, e2), 'r3': desc_out(r3, e3)}


def pick_vals(kind, rnd, n):
    """magnitudes of either sign and zero, inside the kind's legal domain"""
    base = [2.5, -1.75, 0.0, 1e-3, 4.2e5, 6, -4, 1000]        # (int-valued quantities are legal too)
    out = [v for v in base if kind in ('int', 'float') or legal(kind, v)]
    while len(out) < n:
        v = float(f'{rnd.uniform(1, 10) * rnd.choice([1, -1]):.6g}e{rnd.randint(-6, 6)}')
        if kind in ('int', 'float') or legal(kind, v):
            out.append(v)
    rnd.shuffle(out)
    out = out[:n]
    if kind == 'int':
        out = [int(v) if abs(v) >= 1 else (0 if v == 0 else (1 if v > 0 else -1)) for v in out]
    return out


def gen_binops(tier, rnd):
    evs = []
    i = 0
    allk = spectab.kinds() + KINDS_NUM
    alg = {(a['op'], a['k1'], a['k2']): a for a in spectab.tables()['algebra']}
    nk = lambda k: 'Number' if k in KINDS_NUM else k
    combos = 0
    unit_pairs = 0
    for op in '+-*/':
        for k1 in allk:
            for k2 in allk:
                if k1 in KINDS_NUM and k2 in KINDS_NUM:
                    continue
                combos += 1
                defined = bool(alg[(op, nk(k1), nk(k2))]['dictated'])
                us1 = [''] if k1 in KINDS_NUM else spectab.units_of(k1)
                us2 = [''] if k2 in KINDS_NUM else spectab.units_of(k2)
                if tier == 'quick':
                    if defined:
                        pairs = [(u1, u2) for u1 in us1 for u2 in us2]
                        if len(pairs) > 40:
                            pairs = rnd.sample(pairs, 40)
                    else:
                        pairs = [(us1[0], us2[0]), (rnd.choice(us1), rnd.choice(us2))]
                    nv = 2
                else:
                    pairs = [(u1, u2) for u1 in us1 for u2 in us2]
                    nv = 3 if defined else 1
                for (u1, u2) in pairs:
                    unit_pairs += 1
                    va = pick_vals(k1, rnd, nv)
                    vb = pick_vals(k2, rnd, nv)
                    for x, y in zip(va, vb):
                        evs.append(binop_event(i, op, mk(k1, u1, x), mk(k2, u2, y))); i += 1
                    if op == '/' and defined:   # zero divisor where the kind allows a zero
                        if k2 in KINDS_NUM or legal(k2, 0.0):
                            z = 0 if k2 == 'int' else 0.0
                            evs.append(binop_event(i, op, mk(k1, u1, va[0]), mk(k2, u2, z))); i += 1
    # bool operands are ints in Python
    for op in '*/':
        for k in spectab.kinds():
            v = pick_vals(k, rnd, 1)[0]
            evs.append(binop_event(i, op, mk(k, spectab.si_unit(k), v), True)); i += 1
    return evs, combos, unit_pairs


def gen_laws(tier, rnd):
    evs, i = [], 0
    kinds = spectab.kinds()
    fam = lambda k: spectab.tables()['table'][k]['super']
    for k1 in kinds:
        for k2 in kinds:
            if fam(k1) != fam(k2):
                continue
            for u1 in spectab.units_of(k1):
                for u2 in spectab.units_of(k2):
                    for _ in range(1 if tier == 'quick' else 3):
                        a = pick_vals(k1, rnd, 5)[0]
                        b = pick_vals(k2, rnd, 5)[0]
                        evs.append(laws_event(i, mk(k1, u1, a), mk(k2, u2, b))); i += 1
    return evs


# ------------------------------------------------------------------ programs (C19)
def heap_proj(heap):
    return [desc_operand(o) for o in heap]


def run_program(pid, prog):
    """prog: list of abstract steps; slots are 1-based heap indexes (0 = numeric literal).
    Returns the trace record.  Every live object is re-read after every step."""
    heap = []
    steps = []

    def opnd(d):
        return heap[d['slot'] - 1] if d['slot'] > 0 else d['pynum']
    for st in prog:
        op = st['op']
        rec = {'op': op}
        receiver_slot = 0
        if op == 'new':
            rec.update(kind=st['kind'], unit=st['unit'], val=rstr(st['val']))
            res, err = outcome(lambda: qclass(st['kind'])(st['val'], st['unit']))
        elif op in OPF:
            a, b = opnd(st['a']), opnd(st['b'])
            rec['a'] = {'slot': st['a']['slot'], 'num': rstr(st['a'].get('pynum', 0))}
            rec['b'] = {'slot': st['b']['slot'], 'num': rstr(st['b'].get('pynum', 0))}
            res, err = outcome(lambda: OPF[op](a, b))
        elif op in ('neg', 'abs'):
            a = opnd(st['a'])
            rec['a'] = {'slot': st['a']['slot'], 'num': '0'}
            res, err = outcome((lambda: -a) if op == 'neg' else (lambda: abs(a)))
        elif op in ('to', 'to_inplace'):
            a = opnd(st['a'])
            rec['a'] = {'slot': st['a']['slot'], 'num': '0'}
            rec['unit'] = st['unit']
            res, err = outcome(lambda: a.to(st['unit'], inplace=(op == 'to_inplace')))
            if op == 'to_inplace':
                receiver_slot = st['a']['slot']
        else:
            raise Machinery('bad step ' + op)
        if err is None and is_q(res):
            if op == 'to_inplace' and res is heap[receiver_slot - 1]:
                slot = receiver_slot
            else:
                heap.append(res)
                slot = len(heap)
            rec['out'] = desc_out(res, None, slot)
        else:
            rec['out'] = desc_out(res, err)
        rec['heap'] = heap_proj(heap)      # all live objects, re-read now (also after a raising step)
        steps.append(rec)
    return {'id': pid, 'ev': 'prog', 'steps': steps}


def random_program(rnd, length, extreme):
    kinds = spectab.kinds()
    prog, nobj = [], 0

    def val():
        r = rnd.random()
        if r < 0.15:
            return 0.0
        m = rnd.uniform(1, 10) * rnd.choice([1, -1])
        if extreme:
            ex = rnd.choice([rnd.randint(-320, -290), rnd.randint(-20, 20), rnd.randint(280, 305), rnd.randint(-150, 150)])
        else:
            ex = rnd.randint(-4, 4)
        try:
            return float(f'{m:.6g}e{ex}')
        except OverflowError:
            return 1e300
    for _ in range(length):
        r = rnd.random()
        if nobj == 0 or r < 0.3:
            k = rnd.choice(kinds)
            prog.append({'op': 'new', 'kind': k, 'unit': rnd.choice(spectab.units_of(k)), 'val': val() if rnd.random() < 0.8 else rnd.randint(-3, 3)})
            nobj += 1      # upper bound on heap size (construct may raise); slots validated lazily below
        elif r < 0.6:
            a = {'slot': rnd.randint(1, nobj)}
            if rnd.random() < 0.35:
                b = {'slot': 0, 'pynum': rnd.choice([0, 1, -1, 2, 0.5, -2.5, val()])}
            else:
                b = {'slot': rnd.randint(1, nobj)}
            if rnd.random() < 0.1:
                a, b = b, a
            prog.append({'op': rnd.choice('+-*/'), 'a': a, 'b': b})
            nobj += 1
        elif r < 0.75:
            prog.append({'op': rnd.choice(['neg', 'abs']), 'a': {'slot': rnd.randint(1, nobj)}})
            nobj += 1
        else:
            prog.append({'op': rnd.choice(['to', 'to_inplace']), 'a': {'slot': rnd.randint(1, nobj)}, 'unit': None})
            nobj += 1
    return prog


def exec_random_program(pid, rnd, length, extreme):
    """Generate while executing so that slots always refer to live objects."""
    kinds = spectab.kinds()
    heap_kinds = []          # kinds of live objects (mirror, to pick target units)
    steps_abs = []
    # we interleave generation and execution: build the program step by step on a scratch run
    prog = []
    for _ in range(length):
        # choose next abstract step given current live-object count
        n = len(heap_kinds)
        r = rnd.random()
        if n == 0 or r < 0.3:
            k = rnd.choice(kinds)
            if rnd.random() < 0.8:
                m = rnd.uniform(1, 10) * rnd.choice([1, -1])
                ex = (rnd.choice([rnd.randint(-320, -290), rnd.randint(-20, 20), rnd.randint(280, 305), rnd.randint(-150, 150)])
                      if extreme else rnd.randint(-4, 4))
                try:
                    v = float(f'{m:.6g}e{ex}')
                except (OverflowError, ValueError):
                    v = 1e300
                if rnd.random() < 0.15:
                    v = 0.0
            else:
                v = rnd.randint(-3, 3)
            st = {'op': 'new', 'kind': k, 'unit': rnd.choice(spectab.units_of(k)), 'val': v}
        elif r < 0.6:
            a = {'slot': rnd.randint(1, n)}
            if rnd.random() < 0.35:
                b = {'slot': 0, 'pynum': rnd.choice([0, 1, -1, 2, 0.5, -2.5, 1e-200 if extreme else 3.0])}
            else:
                b = {'slot': rnd.randint(1, n)}
            if rnd.random() < 0.1 and b['slot'] == 0:
                a, b = b, a
            st = {'op': rnd.choice('+-*/'), 'a': a, 'b': b}
        elif r < 0.75:
            st = {'op': rnd.choice(['neg', 'abs']), 'a': {'slot': rnd.randint(1, n)}}
        else:
            s = rnd.randint(1, n)
            st = {'op': rnd.choice(['to', 'to_inplace']), 'a': {'slot': s}, 'unit': rnd.choice(spectab.units_of(heap_kinds[s - 1]))}
        prog.append(st)
        rec = run_program(pid, prog)          # re-run prefix (programs are short); deterministic
        heap_kinds = [o['kind'] for o in rec['steps'][-1]['heap']]
    return rec


def boundary_programs():
    """Hand-shaped programs around each sign constraint (zero / tiny / subtraction to <= 0 / in-place underflow)."""
    P = []
    n = [0]

    def add(prog):
        n[0] += 1
        P.append(run_program(f'pb{n[0]}', prog))
    for k in ('Length', 'Surface', 'InertiaMoment', 'TimeInterval', 'Angle'):
        us = spectab.units_of(k)
        small, big = us[0], us[-1]
        for v in (0.0, -1.0, 1.0, 5e-324, -5e-324, 1e-320):
            add([{'op': 'new', 'kind': k, 'unit': small, 'val': v}])
        for u1 in us:
            for u2 in us:
                for v in (5e-324, 1e-310, 3.0):
                    add([{'op': 'new', 'kind': k, 'unit': u1, 'val': v}, {'op': 'to_inplace', 'a': {'slot': 1}, 'unit': u2}])
                    add([{'op': 'new', 'kind': k, 'unit': u1, 'val': v}, {'op': 'to', 'a': {'slot': 1}, 'unit': u2}])
        add([{'op': 'new', 'kind': k, 'unit': small, 'val': 2.0}, {'op': 'new', 'kind': k, 'unit': small, 'val': 2.0},
             {'op': '-', 'a': {'slot': 1}, 'b': {'slot': 2}}, {'op': '-', 'a': {'slot': 1}, 'b': {'slot': 1}}])
        add([{'op': 'new', 'kind': k, 'unit': small, 'val': 2.0}, {'op': 'new', 'kind': k, 'unit': big, 'val': 5.0},
             {'op': '-', 'a': {'slot': 1}, 'b': {'slot': 2}}, {'op': '-', 'a': {'slot': 2}, 'b': {'slot': 1}},
             {'op': 'neg', 'a': {'slot': 1}}, {'op': 'abs', 'a': {'slot': 2}}])
        for num in (0, -1, -0.5, 1e-320, 1e-200, 0.0):
            add([{'op': 'new', 'kind': k, 'unit': small, 'val': 1e-200}, {'op': '*', 'a': {'slot': 1}, 'b': {'slot': 0, 'pynum': num}},
                 {'op': '*', 'a': {'slot': 0, 'pynum': num}, 'b': {'slot': 1}}])
            if num != 0:
                add([{'op': 'new', 'kind': k, 'unit': small, 'val': 1e-200}, {'op': '/', 'a': {'slot': 1}, 'b': {'slot': 0, 'pynum': num}}])
        add([{'op': 'new', 'kind': k, 'unit': small, 'val': 1e-200}, {'op': '/', 'a': {'slot': 1}, 'b': {'slot': 0, 'pynum': 1e200}}])
    return P


# ------------------------------------------------------------------ known findings
def _f10_pair(ka, kb):
    return (ka, kb) in (('Angle', 'AngularPosition'), ('TimeInterval', 'Time'))


def _f10_outcome(a, b, out):
    """a, b: operand descriptors (kind/unit/val); out: recorded outcome of a - b."""
    from .core import frac
    ka, kb = a['kind'], b['kind']
    if not _f10_pair(ka, kb):
        return False
    A = spectab.to_si(frac(a['val']), ka, a['unit'])
    B = spectab.to_si(frac(b['val']), kb, b['unit'])
    if out['t'] == 'ret':
        r = spectab.to_si(frac(out['val']), out['kind'], out['unit'])
        return abs(r - (A + B)) <= Fraction(1, 10**9) * (abs(A) + abs(B))       # the SUM was returned
    if out.get('err') == 'ValueError':
        d = A - B                                  # the discarded left-kind difference was invalid
        return d < 0 if ka == 'Angle' else d <= 0
    return False


def _f10(case):
    e = case.get('event', {})
    if e.get('ev') == 'binop':
        return e['op'] == '-' and _f10_outcome(e['a'], e['b'], e['out'])
    if e.get('ev') == 'laws':
        ka, kb = e['a']['kind'], e['b']['kind']
        return (_f10_pair(ka, kb) or _f10_pair(kb, ka)) and set(case.get('clauses', [])) <= {'LawAntiSym'}
    if e.get('ev') == 'prog':
        st = case.get('step', {})
        ops = case.get('operands')
        if st.get('op') == '-' and ops and all(c.startswith('Outcome_-') for c in case.get('clauses', [])):
            return _f10_outcome(ops[0], ops[1], st['out'])
    return False


def _f14(case):
    st = case.get('step', {})
    if st.get('op') != 'to_inplace' or st.get('out', {}).get('t') != 'ret':
        return False
    if not all(c.split('@')[0] in ('LiveObjectInvalid',) for c in case.get('clauses', [])):
        return False
    # structural: exact result of the conversion is a positive magnitude below the smallest positive double
    from .core import frac
    pre = case.get('pre_obj')
    if not pre:
        return False
    exact = spectab.to_unit(spectab.to_si(frac(pre['val']), pre['kind'], pre['unit']), pre['kind'], st['unit'])
    return 0 < abs(exact) < Fraction(5, 10**324) and frac(st['out']['val']) == 0


MATCHERS = {'F10': _f10, 'F14': _f14}


def _collect(v, res, byid, only=None):
    """only: clause-name prefixes this property judges (None = all); other failing clauses are counted, not reported"""
    for tid, fails in res.fails.items():
        if only is not None:
            kept = [c for c in fails if c.startswith(only) or c.startswith('UNJUDGED')]
            v.extra['clauses_left_to_C06'] = v.extra.get('clauses_left_to_C06', 0) + (len(fails) - len(kept))
            fails = kept
        if not fails:
            continue
        e = byid[tid]
        if e['ev'] != 'prog':
            v.violation({'clauses': fails, 'event': e})
            continue
        # one case per failing step
        bystep = {}
        for c in fails:
            name, _, idx = c.partition('@')
            if name.startswith('UNJUDGED'):
                v.extra['unjudged_steps'] = v.extra.get('unjudged_steps', 0) + 1
                continue
            bystep.setdefault(int(idx), []).append(name)
        for idx, cl in sorted(bystep.items()):
            st = e['steps'][idx - 1]
            pre = e['steps'][idx - 2]['heap'] if idx >= 2 else []
            case = {'clauses': cl, 'event': {'ev': 'prog', 'id': e['id']}, 'step_index': idx, 'step': st,
                    'program': [{k: s[k] for k in s if k not in ('heap',)} for s in e['steps'][:idx]]}
            if 'a' in st and st['a']['slot'] > 0 and st['a']['slot'] <= len(pre):
                case['pre_obj'] = pre[st['a']['slot'] - 1]
            if st['op'] in OPF:
                ops = []
                for d in (st['a'], st['b']):
                    ops.append(pre[d['slot'] - 1] if 0 < d['slot'] <= len(pre) else {'kind': 'Number', 'unit': '', 'val': d['num']})
                case['operands'] = ops
            v.violation(case)


def mc_quantity(v, tier):
    cfg = 'MC_Quantity.cfg' if tier == 'quick' else 'MC_Quantity_thorough.cfg'
    r = run_tlc('MC_Quantity', cfg, workers='auto', coverage=False, timeout=3000)
    require_ok(r, 'MC_Quantity')
    v.add_tlc(r, f'MC_Quantity ({cfg}): design state machine, invariants HeapValid/ResultExact/InverseLaws, property RaiseKeepsHeap')
    if r.violated:
        v.violation({'clauses': ['SpecInvariant_' + r.violated], 'event': {'ev': 'mc'}, 'cex': r.cex[:60]})


def run_C06(tier, seed):
    v = Verdict('C06', tier, seed)
    rnd = random.Random(seed)
    import_repo()
    mc_quantity(v, tier)
    evs, combos, unit_pairs = gen_binops(tier, rnd)
    laws = gen_laws(tier, rnd)
    # operations on objects with a HISTORY (converted in place, results of earlier operations): straight-line programs, of which
    # C06 judges the outcome clauses (kind / SI magnitude / error class); validity of live objects is C19's statement
    progs = inplace_then_arith_programs(tier, rnd) + copy_aliasing_programs(tier, rnd)
    for i in range(120 if tier == 'quick' else 2000):
        progs.append(exec_random_program(f'pq{i}', rnd, 7, extreme=False))
    # arithmetic the repository's own unit tests perform (recorded by a pytest plugin that lives in /verif), judged like every other event
    from . import repo_units
    ru = repo_units.events(tier, seed)
    repo_ev = [e for e in ru['events'] if e['ev'] == 'binop']
    v.extra.update(repo_test_binop_events=len(repo_ev), repo_tests_run=ru['pytest_tail'])
    allev = evs + laws + progs + repo_ev
    res = validate('Trace_Quantity', allev)
    v.states += res.states; v.transitions += res.transitions
    v.traces = len(allev); v.evaluations = len(allev)
    byid = {e['id']: e for e in allev}
    res_np = type('R', (), {'fails': {k: f for k, f in res.fails.items() if byid[k]['ev'] != 'prog'}})()
    _collect(v, res_np, byid)
    res_p = type('R', (), {'fails': {k: f for k, f in res.fails.items() if byid[k]['ev'] == 'prog'}})()
    _collect(v, res_p, byid, only=('Outcome_',))
    v.extra['program_steps'] = sum(len(p['steps']) for p in progs)
    v.distinct = len({(e['op'], e['a']['kind'], e['a']['unit'], e['a']['val'], e['b']['kind'], e['b']['unit'], e['b']['val']) for e in evs}) + len(laws)
    v.rule = ('all ordered pairs of (13 kinds + int + float) x {+,-,*,/} (enumerated from the table TLC exports from Units.tla); unit choices: '
              + ('every pair for defined operations (capped at 40 sampled pairs per combination), two for TypeError combinations' if tier == 'quick'
                 else 'every unit pair of both operands')
              + '; magnitudes of either sign and zero where legal; inverse laws on every same-family kind pair x unit pair; plus every top-level + - * / the repository\'s own unit tests '
              'perform on well-formed operands (one per (operator, kinds, units) bucket); distinct = distinct operand tuples')
    v.extra.update(kind_pair_op_combinations=combos, kind_pairs_exhaustive=True, unit_pair_choices=unit_pairs,
                   unit_pairs_exhaustive=(tier != 'quick'), binop_events=len(evs), law_events=len(laws))
    v.sample(evs[7]); v.sample(evs[len(evs) // 2]); v.sample(laws[0])
    v.assumptions = ['bool operands are ints (Python semantics)', 'TypeError is always an allowed outcome except for the operations the documentation names (Units!MustReturn)']
    return finish(v, MATCHERS)


def inplace_then_arith_programs(tier, rnd):
    """an object converted IN PLACE and then used as the left / right operand of every operator (its own state must have followed)"""
    P = []
    k = 0
    for kind in spectab.kinds():
        us = spectab.units_of(kind)
        pairs = [(a, b) for a in us for b in us if a != b]
        if tier == 'quick' and len(pairs) > 6:
            pairs = rnd.sample(pairs, 6)
        for u1, u2 in pairs:
            k += 1
            v = 3.0
            P.append(run_program(f'pi{k}', [
                {'op': 'new', 'kind': kind, 'unit': u1, 'val': v}, {'op': 'new', 'kind': kind, 'unit': u1, 'val': 1.25},
                {'op': 'to_inplace', 'a': {'slot': 1}, 'unit': u2},
                {'op': '*', 'a': {'slot': 1}, 'b': {'slot': 0, 'pynum': 2}}, {'op': '*', 'a': {'slot': 0, 'pynum': 0.5}, 'b': {'slot': 1}},
                {'op': '/', 'a': {'slot': 1}, 'b': {'slot': 0, 'pynum': 4}},
                {'op': '+', 'a': {'slot': 1}, 'b': {'slot': 2}}, {'op': '+', 'a': {'slot': 2}, 'b': {'slot': 1}},
                {'op': '-', 'a': {'slot': 1}, 'b': {'slot': 2}}, {'op': '/', 'a': {'slot': 1}, 'b': {'slot': 2}}, {'op': '/', 'a': {'slot': 2}, 'b': {'slot': 1}},
                {'op': 'neg', 'a': {'slot': 1}}, {'op': 'abs', 'a': {'slot': 1}}, {'op': 'to', 'a': {'slot': 1}, 'unit': u1}]))
    return P


def copy_aliasing_programs(tier, rnd):
    """`q.to(u)` WITHOUT inplace hands out a quantity of its own: whatever the caller later does to that copy (here: re-expressing it
    IN PLACE in another unit) is none of q's business.  For every operand the copies in EVERY unit of its kind are taken and then
    spoiled, so whichever unit an operator converts its operand to internally has been through a copy; then q is asked again for
    each copy (must come back in the unit asked for) and used as the left / right operand of the operators."""
    P = []
    kinds = spectab.kinds()
    pairs = [(a, b) for a in kinds for b in kinds]
    if tier == 'quick':
        pairs = [(a, b) for a, b in pairs if a == b] + rnd.sample([(a, b) for a, b in pairs if a != b], 60)
    n = 0
    for ka, kb in pairs:
        n += 1
        ua, ub = rnd.choice(spectab.units_of(ka)), rnd.choice(spectab.units_of(kb))
        prog = [{'op': 'new', 'kind': ka, 'unit': ua, 'val': 3.0}, {'op': 'new', 'kind': kb, 'unit': ub, 'val': 1.25}]
        nxt = 3
        for slot, kind in ((1, ka), (2, kb)):
            us = spectab.units_of(kind)
            if len(us) < 2:
                continue
            for j, u in enumerate(us):
                prog.append({'op': 'to', 'a': {'slot': slot}, 'unit': u})                                  # the copy lands in slot nxt ...
                prog.append({'op': 'to_inplace', 'a': {'slot': nxt}, 'unit': us[(j + 1) % len(us)]})     # ... and is re-expressed in place
                nxt += 1
            prog.append({'op': 'to', 'a': {'slot': slot}, 'unit': us[0]}); nxt += 1                         # asked again: a quantity in the unit asked for
        for op in '+-*/':
            prog.append({'op': op, 'a': {'slot': 1}, 'b': {'slot': 2}})
            prog.append({'op': op, 'a': {'slot': 2}, 'b': {'slot': 1}})
        P.append(run_program(f'pc{n}', prog))
    return P


def gen_programs(tier, rnd):
    progs = boundary_programs()
    n_small, n_ext, length = (150, 150, 6) if tier == 'quick' else (2500, 2500, 9)
    for i in range(n_small):
        progs.append(exec_random_program(f'ps{i}', rnd, length, extreme=False))
    for i in range(n_ext):
        progs.append(exec_random_program(f'px{i}', rnd, length, extreme=True))
    return progs


def run_C19(tier, seed):
    v = Verdict('C19', tier, seed)
    rnd = random.Random(seed)
    import_repo()
    mc_quantity(v, tier)
    progs = gen_programs(tier, rnd)
    from . import ctor_drv
    ctor_events = ctor_drv.gen_events(tier, rnd)
    res = validate('Trace_Quantity', progs)
    res2 = validate('Trace_Ctor', ctor_events)
    v.states += res.states + res2.states
    v.transitions += res.transitions + res2.transitions
    v.traces = len(progs) + len(ctor_events)
    v.evaluations = sum(len(p['steps']) for p in progs) + len(ctor_events)
    byid = {e['id']: e for e in progs}
    # C19 is about validity of every live object (and that a raising step changes nothing); whether a returned magnitude or the
    # error class is the right one is C06's statement (Outcome_* clauses), so a C06 finding (F10) is not a C19 alarm
    _collect(v, res, byid, only=('LiveObjectInvalid', 'HeapChange_'))
    cb = {e['id']: e for e in ctor_events}
    for tid, fails in res2.fails.items():
        if fails:
            v.violation({'clauses': fails, 'event': cb[tid]})
    import json
    v.distinct = len({json.dumps([{k: s[k] for k in s if k != 'heap'} for s in p['steps']], sort_keys=True) for p in progs}) + len(ctor_events)
    v.rule = ('straight-line programs over real gearpy quantities: hand-shaped boundary programs around every sign constraint (zero, +-denormal, '
              'subtraction to <= 0, multiplication/division by 0/negative/tiny numbers, copy and in-place conversion between every unit pair of the five '
              'constrained kinds) + seeded random programs (construct, + - * /, neg, abs, to, to in place; all 13 kinds, all units; magnitudes 1e-4..1e4 '
              'and extreme 1e-320..1e305); after EVERY step (also a raising one) every live object is re-read and must satisfy Units!SignOK, the outcome must be '
              'allowed by QuantityOps and only the explained slot may change; component constructors: grid over each documented parameter constraint')
    v.extra.update(programs=len(progs), program_steps=sum(len(p['steps']) for p in progs), constructor_events=len(ctor_events))
    v.sample(progs[0]); v.sample(progs[-1]); v.sample(ctor_events[0])
    v.assumptions = ['ValueError is the only accepted refusal for a sign-violating result; KeyError for an unknown unit']
    return finish(v, MATCHERS)
