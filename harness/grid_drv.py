"""C11 enumeration: decimal time steps and step counts on a minimal chain, all four time units, fresh and continued runs."""
from __future__ import annotations
import os, random
from concurrent.futures import ProcessPoolExecutor
from decimal import Decimal
from fractions import Fraction
from . import spectab
from .core import import_repo, rstr
from .units_drv import outcome

UNITS = ['sec', 'min', 'hour', 'ms']


def _chunk(cases):
    import_repo()
    from gearpy.mechanical_objects import DCMotor, SpurGear
    from gearpy.units import AngularSpeed, Torque, InertiaMoment, AngularPosition, TimeInterval
    from gearpy.utils import add_fixed_joint
    from gearpy.powertrain import Powertrain
    from gearpy.solver import Solver
    out = []
    for c in cases:
        motor = DCMotor('m', InertiaMoment(1, 'kgm^2'), AngularSpeed(100, 'rad/s'), Torque(1, 'Nm'))
        gear = SpurGear('g', 10, InertiaMoment(1, 'kgm^2'))
        add_fixed_joint(motor, gear)
        gear.external_torque = lambda time, angular_position, angular_speed: Torque(0, 'Nm')
        pt = Powertrain(motor)
        gear.angular_position = AngularPosition(0, 'rad')
        gear.angular_speed = AngularSpeed(0, 'rad/s')
        solver = Solver(pt)
        for ri, r in enumerate(c['runs']):
            dt_dec = Decimal(r['m']) * (Decimal(10) ** -r['e'])
            dt_f = float(dt_dec)
            T_f = dt_f * r['n'] if r['T_as'] == 'product' else float(dt_dec * r['n'])
            # whole-number steps / durations are given as Python ints in every other case (ints are legal values)
            as_int = r.get('ints') and dt_f == int(dt_f) and T_f == int(T_f)
            dt = TimeInterval(int(dt_f) if as_int else dt_f, r['unit'])
            T = TimeInterval(int(T_f) if as_int else T_f, r['unit'])
            before = [rstr(spectab.to_si(Fraction(t.value), 'Time', t.unit)) for t in pt.time]
            _, err = outcome(lambda: solver.run(dt, T))
            after = [rstr(spectab.to_si(Fraction(t.value), 'Time', t.unit)) for t in pt.time]
            out.append({'id': f"{c['id']}r{ri}", 'dt': rstr(spectab.to_si(Fraction(dt_f), 'Time', r['unit'])),
                        'T': rstr(spectab.to_si(Fraction(T_f), 'Time', r['unit'])), 'unit': r['unit'], 'm': r['m'], 'e': r['e'], 'n': r['n'], 'T_as': r['T_as'],
                        'outcome': 'ok' if err is None else err, 'before': before, 'after': after})
            if err is not None:
                break
    return out


def gen_cases(tier, seed):
    rnd = random.Random(seed * 31 + 7)
    ms = list(range(1, 100))
    cases = []
    n_cases = 360 if tier == 'quick' else 12000

    def run():
        return {'m': rnd.choice(ms), 'e': rnd.choice([0, 1, 2, 3]), 'n': rnd.randint(2, 60), 'unit': rnd.choice(UNITS), 'T_as': rnd.choice(['product', 'literal']),
                'ints': rnd.random() < 0.5}
    # stratified: every m once at least (quick: with a random e), plus the historically failing one
    fixed = [{'m': 35, 'e': 2, 'n': 30, 'unit': 'sec', 'T_as': 'literal'}, {'m': 1, 'e': 1, 'n': 3, 'unit': 'sec', 'T_as': 'product'}]
    for i in range(n_cases):
        r1 = run()
        if i < len(ms):
            r1['m'] = ms[i]
        runs = [r1]
        if i % 2:
            runs.append(run())           # continued with its own (m, e, n, unit)
            if i % 4 == 1:
                runs[1]['m'], runs[1]['e'] = r1['m'], r1['e']      # same step as the first run
        cases.append({'id': f'g{i}', 'runs': runs})
    # decimal step, then a whole-number step given as an int (the restart instant is not a whole number of new steps), in the same and in another unit
    cases.append({'id': 'gI1', 'runs': [{'m': 5, 'e': 1, 'n': 3, 'unit': 'sec', 'T_as': 'product'}, {'m': 1, 'e': 0, 'n': 4, 'unit': 'sec', 'T_as': 'product', 'ints': True}]})
    cases.append({'id': 'gI2', 'runs': [{'m': 30, 'e': 0, 'n': 3, 'unit': 'sec', 'T_as': 'product', 'ints': True}, {'m': 1, 'e': 0, 'n': 3, 'unit': 'min', 'T_as': 'product', 'ints': True}]})
    cases.append({'id': 'gI3', 'runs': [{'m': 25, 'e': 1, 'n': 3, 'unit': 'ms', 'T_as': 'product'}, {'m': 2, 'e': 0, 'n': 5, 'unit': 'ms', 'T_as': 'literal', 'ints': True}]})
    cases.append({'id': 'gF1', 'runs': [fixed[0]]})
    cases.append({'id': 'gC', 'runs': [fixed[1], dict(fixed[1])]})
    return cases


def events(tier, seed):
    cases = gen_cases(tier, seed)
    nproc = min(16, os.cpu_count() or 4)
    chunks = [cases[i::nproc] for i in range(nproc)]
    with ProcessPoolExecutor(max_workers=nproc) as ex:
        res = list(ex.map(_chunk, chunks))
    return [e for r in res for e in r]
