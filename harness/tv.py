"""Generic code -> spec trace validation: write ndjson shards, run the Trace_* spec in TLC,
collect one total verdict per trace id."""
from __future__ import annotations
import json, os, tempfile, shutil
from concurrent.futures import ThreadPoolExecutor
from .core import run_tlc, Machinery, NCPU, TLCResult


class TVResult:
    def __init__(self):
        self.fails: dict[str, list[str]] = {}    # id -> failing clause names ([] = accepted)
        self.states = 0
        self.transitions = 0
        self.wall = 0.0
        self.runs: list[TLCResult] = []
        self.notes: dict[str, list[str]] = {}    # id -> free-form N| lines


def validate(module: str, records: list[dict], *, cfg: str | None = None, shards: int | None = None,
             workers_per_shard: int = 2, env: dict | None = None, timeout: int = 3600,
             dfs_queue: bool = False, id_key: str = 'id') -> TVResult:
    """Every record must carry a unique string id under `id_key`."""
    out = TVResult()
    if not records:
        return out
    ids = [str(r[id_key]) for r in records]
    if len(set(ids)) != len(ids):
        raise Machinery('duplicate trace ids')
    n = shards or max(1, min(NCPU // workers_per_shard, (len(records) + 199) // 200))
    tmp = tempfile.mkdtemp(prefix='verif-tv-')
    try:
        files = []
        for s in range(n):
            part = records[s::n]
            if not part:
                continue
            fp = os.path.join(tmp, f'shard{s}.ndjson')
            with open(fp, 'w') as f:
                for r in part:
                    f.write(json.dumps(r) + '\n')
            files.append(fp)

        def one(fp):
            e = {'TRACE_FILE': fp}
            if env:
                e.update(env)
            r = run_tlc(module, cfg or module + '.cfg', env=e, workers=workers_per_shard,
                        timeout=timeout, dfs_queue=dfs_queue)
            if not r.ok and r.error is None and r.violated is None:
                # the JVM went away without a TLC error (killed under memory pressure when many checks run at once): once more
                r = run_tlc(module, cfg or module + '.cfg', env=e, workers=workers_per_shard,
                            timeout=timeout, dfs_queue=dfs_queue)
            return r
        with ThreadPoolExecutor(max_workers=len(files)) as ex:
            results = list(ex.map(one, files))
    finally:
        shutil.rmtree(tmp, ignore_errors=True)
    for r in results:
        out.runs.append(r)
        if not r.ok:
            tail = '\n'.join(r.stdout.splitlines()[-30:])
            raise Machinery(f'trace validation ({module}) did not complete: {r.error}\n{tail}')
        out.states += r.distinct
        out.transitions += r.generated
        out.wall = max(out.wall, r.wall)
        for ln in r.prints:
            if ln.startswith('V|'):
                parts = ln.split('|')
                tid = parts[1]
                if parts[2] == 'ACCEPT':
                    out.fails.setdefault(tid, [])
                elif parts[2] == 'FAIL':
                    cur = out.fails.setdefault(tid, [])
                    for c in parts[3].split(','):
                        if c and c not in cur:
                            cur.append(c)
            elif ln.startswith('N|') or ln.startswith('U|'):
                parts = ln.split('|', 2)
                out.notes.setdefault(parts[1], []).append(parts[2])
    missing = [i for i in ids if i not in out.fails]
    if missing:
        raise Machinery(f'trace validation ({module}): no verdict for {len(missing)} trace(s), e.g. {missing[:3]}')
    return out
