"""pytest plugin (lives in /verif, loaded with `-p harness.repo_units_plugin`): records the conversions, comparisons and
arithmetic the repository's OWN unit tests (tests/test_units, hypothesis-driven) perform on the real quantity classes, as events
for Trace_Units.tla (rto / rcmp) and Trace_Quantity.tla (binop).  No repository source is touched: the operators of every
concrete quantity class are wrapped from outside for the duration of the pytest session, only top-level calls are recorded
(what an operator does internally is its own business), and only calls the properties speak about: well-formed operands with
finite values of ordinary magnitude, a valid target unit, a boolean `inplace`.

Buckets keep the record diverse and bounded: at most PER_BUCKET events per (event kind, class, operator, other class, units)."""
from __future__ import annotations
import json, math, os

OUT = os.environ.get('VERIF_REPO_UNITS_OUT')
PER_BUCKET = int(os.environ.get('VERIF_REPO_UNITS_PER_BUCKET', '2'))
MAX_EVENTS = int(os.environ.get('VERIF_REPO_UNITS_MAX', '20000'))
_state = {'depth': 0, 'events': [], 'buckets': {}, 'n': 0}
ARITH = {'__add__': '+', '__sub__': '-', '__mul__': '*', '__truediv__': '/', '__rmul__': 'r*'}
CMP = {'__eq__': 'eq', '__ne__': 'ne', '__lt__': 'lt', '__le__': 'le', '__gt__': 'gt', '__ge__': 'ge'}


def _install():
    from harness.core import rstr
    import gearpy.units as U
    import gearpy.units.units as UU
    base = U.UnitBase

    def all_sub(c):
        out = []
        for s in c.__subclasses__():
            out.append(s)
            out += all_sub(s)
        return out
    classes = [c for c in all_sub(base) if c.__module__ == UU.__name__]

    def units_of(c):
        for k in c.__mro__:
            d = getattr(k, f'_{k.__name__}__UNITS', None)
            if isinstance(d, dict) and d:
                return d
        return {}

    def num_ok(x):
        return isinstance(x, (int, float)) and not isinstance(x, bool) and math.isfinite(x) and (x == 0 or 1e-100 <= abs(x) <= 1e100)

    def desc(x):
        """None when the operand is outside what the properties speak about"""
        if isinstance(x, base):
            if type(x) not in classes:
                return None
            v, u = x.value, x.unit
            if not num_ok(v) or u not in units_of(type(x)):
                return None
            return {'kind': type(x).__name__, 'unit': u, 'val': rstr(v)}
        if num_ok(x):
            return {'kind': 'Number', 'unit': '', 'val': rstr(x)}
        return None

    def take(bucket):
        if _state['n'] >= MAX_EVENTS:
            return False
        c = _state['buckets'].get(bucket, 0)
        if c >= PER_BUCKET:
            return False
        _state['buckets'][bucket] = c + 1
        _state['n'] += 1
        return True

    def eid():
        return f"rt{os.environ.get('PYTEST_XDIST_WORKER', 'm')}_{_state['n']}"

    def wrap(cls, name, orig):
        def w(self, *args, **kwargs):
            if _state['depth'] > 0:
                return orig(self, *args, **kwargs)
            pre = None
            try:
                pre = prepare(self, args, kwargs)
            except Exception:                  # noqa
                pre = None
            _state['depth'] += 1
            res, err = None, None
            try:
                res = orig(self, *args, **kwargs)
                return res
            except Exception as e:             # noqa
                err = type(e).__name__
                raise
            finally:
                _state['depth'] -= 1
                if pre is not None:
                    try:
                        pre(res, err)
                    except Exception:          # noqa
                        pass
        w.__name__ = name
        w.__qualname__ = getattr(orig, '__qualname__', name)
        w.__doc__ = getattr(orig, '__doc__', None)

        def prepare(self, args, kwargs):
            a = desc(self)
            if a is None:
                return None
            if name == 'to':
                if len(args) + len(kwargs) > 2 or any(k not in ('target_unit', 'inplace') for k in kwargs):
                    return None
                tu = args[0] if args else kwargs.get('target_unit')
                inplace = args[1] if len(args) > 1 else kwargs.get('inplace', False)
                if not isinstance(tu, str) or tu not in units_of(type(self)) or not isinstance(inplace, bool):
                    return None
                if not take(('rto', a['kind'], a['unit'], tu, inplace)):
                    return None
                ident = eid()

                def post(res, err):
                    e = {'id': ident, 'ev': 'rto', 'kind': a['kind'], 'u1': a['unit'], 'u2': tu, 'v': a['val'], 'inplace': inplace}
                    if err is None and isinstance(res, base) and isinstance(res.value, (int, float)) and math.isfinite(res.value):
                        e['out'] = {'ok': True, 'err': '', 'val': rstr(res.value), 'unit': res.unit, 'cls': type(res).__name__, 'same_obj': res is self}
                    else:
                        e['out'] = {'ok': False, 'err': err or ('Returned' + type(res).__name__), 'val': '0', 'unit': '', 'cls': '', 'same_obj': False}
                    after = desc(self)
                    e['after'] = {'val': after['val'], 'unit': after['unit']} if after else {'val': 'nan', 'unit': str(getattr(self, 'unit', ''))}
                    _state['events'].append(e)
                return post
            if len(args) != 1 or kwargs:
                return None
            b = desc(args[0])
            if b is None:
                return None
            if name in CMP:
                if b['kind'] == 'Number':
                    return None
                if not take(('rcmp', CMP[name], a['kind'], a['unit'], b['kind'], b['unit'])):
                    return None
                ident = eid()

                def post(res, err):
                    ok = err is None and isinstance(res, bool)
                    _state['events'].append({'id': ident, 'ev': 'rcmp', 'op': CMP[name], 'k1': a['kind'], 'u1': a['unit'], 'a': a['val'],
                                             'k2': b['kind'], 'u2': b['unit'], 'b': b['val'],
                                             'res': {'ok': ok, 'val': bool(res) if ok else False, 'err': err or ('' if ok else 'Returned' + type(res).__name__)}})
                return post
            op = ARITH[name]
            x, y = (b, a) if op == 'r*' else (a, b)
            op = '*' if op == 'r*' else op
            if not take(('binop', op, x['kind'], x['unit'], y['kind'], y['unit'])):
                return None
            ident = eid()

            def post(res, err):
                from harness.quantity_drv import desc_out
                if res is NotImplemented:
                    return
                _state['events'].append({'id': ident, 'ev': 'binop', 'op': op, 'a': x, 'b': y, 'out': desc_out(res, err)})
            return post
        return w

    for cls in classes + [base]:
        for name in (list(CMP) if cls is base else list(ARITH) + list(CMP) + ['to']):       # arithmetic in the base class is abstract
            orig = cls.__dict__.get(name)
            if orig is not None and callable(orig):
                setattr(cls, name, wrap(cls, name, orig))


def pytest_configure(config):
    if OUT:
        _install()


def pytest_sessionfinish(session, exitstatus):
    if OUT and _state['events']:
        w = os.environ.get('PYTEST_XDIST_WORKER', 'm')
        with open(f'{OUT}.{w}', 'w') as f:
            for e in _state['events']:
                f.write(json.dumps(e) + '\n')
