"""The unit table and dimensional algebra, exported by TLC from spec/Units.tla (MC_Units)."""
from __future__ import annotations
import json, os, hashlib
from fractions import Fraction
from .core import run_tlc, require_ok, SPEC, VERIF, Machinery, frac

_cache = None


def _spec_hash():
    h = hashlib.sha256()
    for f in ('Units.tla', 'MC_Units.tla', 'BigRat.tla'):
        h.update(open(os.path.join(SPEC, f), 'rb').read())
    return h.hexdigest()[:16]


def tables():
    """-> dict(table=..., algebra=..., pi=Fraction, tlc=TLCResult|None)"""
    global _cache
    if _cache is not None:
        return _cache
    cdir = os.path.join(VERIF, '.cache')
    os.makedirs(cdir, exist_ok=True)
    cp = os.path.join(cdir, f'units-{_spec_hash()}.json')
    if os.path.exists(cp):
        try:
            d = json.load(open(cp))
            d['pi'] = frac(d['pi'])
            _cache = d
            return d
        except Exception:
            pass
    r = run_tlc('MC_Units', 'MC_Units.cfg', workers=1)
    require_ok(r, 'MC_Units')
    d = {}
    for ln in r.prints:
        if ln.startswith('TABLE '):
            d['table'] = json.loads(ln[6:])
        elif ln.startswith('ALGEBRA '):
            d['algebra'] = json.loads(ln[8:])
        elif ln.startswith('PI '):
            d['pi'] = ln[3:]
    if set(d) != {'table', 'algebra', 'pi'}:
        raise Machinery('MC_Units did not export its tables')
    tmp = cp + f'.{os.getpid()}'
    json.dump(d, open(tmp, 'w'))
    os.replace(tmp, cp)
    d['pi'] = frac(d['pi'])
    _cache = d
    return d


def factor(kind: str, unit: str) -> Fraction:
    t = tables()
    u = t['table'][kind]['units'][unit]
    return frac(u['q']) * (t['pi'] ** u['p'])


def to_unit(si_value: Fraction, kind: str, unit: str) -> Fraction:
    return Fraction(si_value) / factor(kind, unit)


def to_si(value, kind: str, unit: str) -> Fraction:
    return Fraction(value) * factor(kind, unit)


def units_of(kind: str) -> list[str]:
    return sorted(tables()['table'][kind]['units'].keys())


def kinds() -> list[str]:
    return sorted(tables()['table'].keys())


def si_unit(kind: str) -> str:
    return tables()['table'][kind]['si']


def sign_rule(kind: str) -> str:
    return tables()['table'][kind]['sign']
