"""C09 driver: real gear objects (every data subset, both roles, mated / unmated) vs Gear.tla."""
from __future__ import annotations
import itertools, math, random, csv, os
from fractions import Fraction
from . import spectab
from .core import import_repo, rstr, Verdict, finish, run_tlc, require_ok, REPO
from .tv import validate
from .units_drv import outcome

N = 'null'


def siq(q, kind):
    return rstr(spectab.to_si(Fraction(q.value), kind, q.unit)) if q is not None else N


def tan_half(angle):
    return rstr(math.tan(angle.to('rad').value / 2))


def describe(g, role):
    from gearpy.mechanical_objects import SpurGear, HelicalGear, WormGear, WormWheel
    cls = type(g).__name__
    d = {'cls': cls, 'teeth': 0, 'module': N, 'b': N, 'E': N, 'th': '0', 'alpha': N, 'dref': N, 'role': role}
    if isinstance(g, WormGear):
        d['teeth'] = g.n_starts
        d['th'] = tan_half(g.helix_angle)
        d['alpha'] = siq(g.pressure_angle, 'Angle')
        d['dref'] = siq(g.reference_diameter, 'Length')
        return d
    d['teeth'] = g.n_teeth
    d['module'] = siq(g.module, 'Length')
    d['b'] = siq(g.face_width, 'Length')
    d['E'] = siq(g.elastic_modulus, 'Stress')
    if isinstance(g, HelicalGear):
        d['th'] = tan_half(g.helix_angle)
    if isinstance(g, WormWheel):
        d['alpha'] = siq(g.pressure_angle, 'Angle')
    return d


def call(fn, getter, kind):
    _, err = outcome(fn)
    if err is not None:
        return {'called': True, 'ok': False, 'val': '0', 'err': err}
    q = getter()
    v = q.value
    if isinstance(v, float) and (v != v or abs(v) == float('inf')):
        return {'called': True, 'ok': True, 'val': rstr(v), 'err': ''}
    return {'called': True, 'ok': True, 'val': siq(q, kind), 'err': ''}


NOT = {'called': False, 'ok': True, 'val': '0', 'err': ''}


def evaluate(g):
    from gearpy.mechanical_objects import WormGear
    o = {'ft_flag': bool(g.tangential_force_is_computable), 'sb_flag': False, 'sc_flag': False, 'lewis': N,
         'ft': dict(NOT), 'sb': dict(NOT), 'sc': dict(NOT)}
    if not isinstance(g, WormGear):
        o['sb_flag'] = bool(g.bending_stress_is_computable)
        o['sc_flag'] = bool(g.contact_stress_is_computable)
        lf, err = outcome(lambda: g.lewis_factor)
        if err is None and lf is not None:
            o['lewis'] = rstr(float(lf))
    if o['ft_flag']:
        o['ft'] = call(g.compute_tangential_force, lambda: g.tangential_force, 'Force')
    if o['sb_flag'] and o['ft']['ok']:
        o['sb'] = call(g.compute_bending_stress, lambda: g.bending_stress, 'Stress')
    if o['sc_flag'] and o['ft']['ok']:
        o['sc'] = call(g.compute_contact_stress, lambda: g.contact_stress, 'Stress')
    return o


def L(v, rnd=None):
    from gearpy.units import Length
    if v is None:
        return None
    if rnd is None:
        return Length(v, 'm')
    u = rnd.choice(spectab.units_of('Length'))
    return Length(float(spectab.to_unit(Fraction(v), 'Length', u)), u)


def S(v, rnd=None):
    from gearpy.units import Stress
    if v is None:
        return None
    if rnd is None:
        return Stress(v, 'Pa')
    u = rnd.choice(spectab.units_of('Stress'))
    return Stress(float(spectab.to_unit(Fraction(v), 'Stress', u)), u)


def T(v, rnd=None):
    from gearpy.units import Torque
    if rnd is None:
        return Torque(v, 'Nm')
    u = rnd.choice(spectab.units_of('Torque'))
    return Torque(float(spectab.to_unit(Fraction(v), 'Torque', u)), u)


def pair_event(eid, a, b, mated, torques, rnd=None):
    """a drives b if mated"""
    ra, rb = ('master', 'slave') if mated else ('none', 'none')
    for g, (tl, td) in ((a, torques[0]), (b, torques[1])):
        g.load_torque = T(tl, rnd)
        g.driving_torque = T(td, rnd)
    e = {'id': eid, 'ev': 'pair', 'a': describe(a, ra), 'b': describe(b, rb),
         'Tl_a': siq(a.load_torque, 'Torque'), 'Td_a': siq(a.driving_torque, 'Torque'),
         'Tl_b': siq(b.load_torque, 'Torque'), 'Td_b': siq(b.driving_torque, 'Torque')}
    e['out_a'] = evaluate(a)
    e['out_b'] = evaluate(b)
    return e


def gen(tier, rnd):
    import_repo()
    from gearpy.mechanical_objects import SpurGear, HelicalGear, WormGear, WormWheel
    from gearpy.units import InertiaMoment, Angle
    from gearpy.utils import add_gear_mating, add_worm_gear_mating
    J = InertiaMoment(1, 'kgm^2')
    evs = []
    n = [0]

    def eid():
        n[0] += 1
        return f'g{n[0]}'
    # (a) Lewis factor for every teeth number 10..520 (spur), and the csv against the spec table
    with open(os.path.join(REPO, 'gearpy', 'mechanical_objects', 'gear_data', 'lewis_factor_table.csv')) as f:
        rows = list(csv.reader(f))[1:]
    for i, (z, y) in enumerate(rows, 1):
        evs.append({'id': eid(), 'ev': 'lewiscsv', 'i': i, 'z': int(z), 'y': y, 'n': len(rows)})
    for z in range(10, 521):
        g = SpurGear('g', z, J, module=L(0.001), face_width=L(0.01))
        evs.append({'id': eid(), 'ev': 'lewis', 'z': z, 'val': rstr(float(g.lewis_factor))})
    # (b) the complete finite space of flags: every subset of optional data on both gears, mated and unmated
    subsets = list(itertools.product([False, True], repeat=3))
    tq = ((0.3, -0.7), (-0.2, 0.5))
    for mated in (True, False):
        for sa in subsets:
            for sb in subsets:
                for cls in ('spur', 'helical'):
                    def mk(name, teeth, s):
                        kw = dict(module=L(0.002) if s[0] else None, face_width=L(0.012 if name == 'a' else 0.009) if s[1] else None,
                                  elastic_modulus=S(2.1e11 if name == 'a' else 1.1e11) if s[2] else None)
                        if cls == 'spur':
                            return SpurGear(name, teeth, J, **kw)
                        return HelicalGear(name, teeth, J, Angle(23, 'deg'), **kw)
                    a, b = mk('a', 17, sa), mk('b', 41, sb)
                    if mated:
                        add_gear_mating(a, b, 0.9)
                    evs.append(pair_event(eid(), a, b, mated, tq))
    for mated in (True, False):
        for worm_first in (True, False):
            for dref in (None, 0.02):
                for sw in itertools.product([False, True], repeat=2):
                    for al, hx in ((20, 12.0), (14.5, 15.0), (25, 30.0), (30, 41.0)):
                        worm = WormGear('w', 2, J, Angle(hx, 'deg'), Angle(al, 'deg'), reference_diameter=L(dref))
                        wheel = WormWheel('h', 30, J, Angle(hx, 'deg'), Angle(al, 'deg'), module=L(0.002) if sw[0] else None,
                                          face_width=L(0.015) if sw[1] else None)
                        a, b = (worm, wheel) if worm_first else (wheel, worm)
                        if mated:
                            add_worm_gear_mating(a, b, 0.05)
                        evs.append(pair_event(eid(), a, b, mated, tq))
    # (b') gears that were mated before: the mate that counts is the one of the LAST declaration (another size, modulus, face width)
    for cls in ('spur', 'helical'):
        def mk(name, teeth, b_, E_):
            kw = dict(module=L(0.002), face_width=L(b_), elastic_modulus=S(E_))
            return SpurGear(name, teeth, J, **kw) if cls == 'spur' else HelicalGear(name, teeth, J, Angle(18, 'deg'), **kw)
        a, b, c = mk('a', 17, 0.012, 2.1e11), mk('b', 41, 0.009, 1.1e11), mk('c', 23, 0.02, 0.7e11)
        add_gear_mating(a, b, 0.9)
        evs.append(pair_event(eid(), a, b, True, tq))   # force and stresses are computed with the first partner ...
        add_gear_mating(a, c, 0.8)                 # ... then the master gets a new slave
        evs.append(pair_event(eid(), a, c, True, tq))
        a, b, c = mk('a', 17, 0.012, 2.1e11), mk('b', 41, 0.009, 1.1e11), mk('c', 23, 0.02, 0.7e11)
        add_gear_mating(a, b, 0.9)
        evs.append(pair_event(eid(), a, b, True, tq))
        add_gear_mating(c, b, 0.8)                 # the slave gets a new master
        evs.append(pair_event(eid(), c, b, True, tq))
        a, b, c = mk('a', 17, 0.012, 2.1e11), mk('b', 41, 0.009, 1.1e11), mk('c', 23, 0.02, 0.7e11)
        add_gear_mating(a, b, 0.9)
        evs.append(pair_event(eid(), a, b, True, tq))
        add_gear_mating(b, c, 0.8)                 # the slave becomes the master of a third gear: its role and reference torque change
        evs.append(pair_event(eid(), b, c, True, tq))
    for al, hx in ((20, 12.0), (30, 41.0)):
        w1 = WormGear('w1', 2, J, Angle(hx, 'deg'), Angle(al, 'deg'), reference_diameter=L(0.02))
        w2 = WormGear('w2', 1, J, Angle(hx, 'deg'), Angle(al, 'deg'), reference_diameter=L(0.035))
        wh = WormWheel('h', 30, J, Angle(hx, 'deg'), Angle(al, 'deg'), module=L(0.002), face_width=L(0.03))
        add_worm_gear_mating(w1, wh, 0.05)
        evs.append(pair_event(eid(), w1, wh, True, tq))
        add_worm_gear_mating(w2, wh, 0.05)         # the wheel is re-mated with a worm of another diameter
        evs.append(pair_event(eid(), w2, wh, True, tq))
    # (c) formula grids with seeded random parameters, units and torques of either sign
    nrand = 60 if tier == 'quick' else 1500
    for _ in range(nrand):
        za, zb = rnd.randint(10, 160), rnd.randint(10, 400)
        m = float(f'{rnd.uniform(2e-4, 2e-2):.4g}')
        ba, bb = (float(f'{rnd.uniform(1e-3, 8e-2):.4g}') for _ in range(2))
        Ea, Eb = (float(f'{rnd.uniform(1e9, 4e11):.4g}') for _ in range(2))
        tqs = tuple((float(f'{rnd.uniform(-5, 5):.4g}'), float(f'{rnd.uniform(-5, 5):.4g}')) for _ in range(2))
        kind = rnd.choice(['spur', 'helical', 'helical', 'worm', 'wormrev'])
        if kind == 'spur':
            a = SpurGear('a', za, J, module=L(m, rnd), face_width=L(ba, rnd), elastic_modulus=S(Ea, rnd))
            b = SpurGear('b', zb, J, module=L(m, rnd), face_width=L(bb, rnd), elastic_modulus=S(Eb, rnd))
            add_gear_mating(a, b, rnd.uniform(0.5, 1))
        elif kind == 'helical':
            hx = rnd.choice([0.0, rnd.uniform(0, 89), rnd.uniform(0, 45), 88.9])
            unit = rnd.choice(spectab.units_of('Angle'))
            ang = lambda: Angle(float(spectab.to_unit(Fraction(math.radians(hx)), 'Angle', unit)), unit)
            a = HelicalGear('a', za, J, ang(), module=L(m, rnd), face_width=L(ba, rnd), elastic_modulus=S(Ea, rnd))
            b = HelicalGear('b', zb, J, ang(), module=L(m, rnd), face_width=L(bb, rnd), elastic_modulus=S(Eb, rnd))
            add_gear_mating(a, b, rnd.uniform(0.5, 1))
        else:
            al, lim = rnd.choice([(14.5, 16), (20, 25), (25, 35), (30, 45)])
            hx = rnd.uniform(1, lim - 0.01)
            worm = WormGear('w', rnd.randint(1, 4), J, Angle(hx, 'deg'), Angle(al, 'deg'),
                            reference_diameter=L(float(f'{rnd.uniform(5e-3, 8e-2):.4g}'), rnd))
            wheel = WormWheel('h', zb, J, Angle(hx, 'deg'), Angle(al, 'deg'), module=L(m, rnd), face_width=L(bb, rnd))
            a, b = (worm, wheel) if kind == 'worm' else (wheel, worm)
            f = rnd.uniform(0, 0.3)
            _, err = outcome(lambda: add_worm_gear_mating(a, b, f))
            if err is not None:          # efficiency out of range for this geometry (C10's subject): mate with no friction
                worm = WormGear('w', worm.n_starts, J, Angle(hx, 'deg'), Angle(al, 'deg'), reference_diameter=worm.reference_diameter)
                wheel = WormWheel('h', zb, J, Angle(hx, 'deg'), Angle(al, 'deg'), module=wheel.module, face_width=wheel.face_width)
                a, b = (worm, wheel) if kind == 'worm' else (wheel, worm)
                add_worm_gear_mating(a, b, 0)
        evs.append(pair_event(eid(), a, b, True, tqs, rnd))
        if rnd.random() < 0.5:
            # the user re-expresses a geometric / material parameter IN PLACE (the quantity object the gear holds, reached through
            # the public getter) after the first computation: the magnitudes have not changed, so neither have force and stresses
            cands = [(g, at, kind) for g in (a, b) for at, kind in (('module', 'Length'), ('face_width', 'Length'), ('elastic_modulus', 'Stress'), ('reference_diameter', 'Length'))
                     if getattr(g, at, None) is not None]
            for g, at, kind in rnd.sample(cands, min(len(cands), 2)):
                getattr(g, at).to(rnd.choice(spectab.units_of(kind)), inplace=True)
            evs.append(pair_event(eid(), a, b, True, tqs, rnd))
    return evs


def run_C09(tier, seed):
    v = Verdict('C09', tier, seed)
    rnd = random.Random(seed)
    r = run_tlc('MC_Gear', 'MC_Gear.cfg', workers=1)
    require_ok(r, 'MC_Gear')
    v.extra['mc_gear'] = 'lemmas: VirtualTeeth(z, beta=0) = z for z in 10..520; interpolation passes through the table, is monotone and clamped'
    evs = gen(tier, rnd)
    res = validate('Trace_Gear', evs)
    v.states, v.transitions = res.states, res.transitions
    v.traces = v.evaluations = len(evs)
    byid = {e['id']: e for e in evs}
    for tid, fails in res.fails.items():
        if fails:
            v.violation({'clauses': fails, 'event': byid[tid]})
    # (d) the same quantities as the SOLVER records them: every recorded instant of the shared campaign (held and moving chains alike)
    from . import solver_drv
    solver_drv.campaign_part(v, 'C09', tier, seed, 'recorded tangential force / bending stress / contact stress of every gear at every recorded instant '
                             'against Gear.tla evaluated with the torques recorded at that instant (SolverOps!StressFails)')
    import json
    v.distinct = len({json.dumps({k: e[k] for k in e if k != 'id'}, sort_keys=True) for e in evs})
    v.rule = ('(a) lewis_factor of a spur gear for every teeth number 10..520 and the shipped csv row by row against Gear!LewisTable; '
              '(b) every subset of {module, face width, elastic modulus} on both gears x {spur, helical} x {mated, unmated} and every subset of '
              '{worm reference diameter} x {wheel module, face width} x both orientations x four pressure angles x {mated, unmated}: flags, '
              'ValueError of the contact stress when the mate lacks data; (c) seeded random parameters in random units, torques of either sign, both roles; '
              '(d) the recorded histories of the shared solver campaign, instant by instant')
    v.extra['flag_space_exhaustive'] = True
    v.sample(evs[600]); v.sample(evs[-1])
    v.assumptions = ['helix angles enter the spec through tan(beta/2) computed with math.tan from the angle the object holds',
                     'the worm thread force is modelled as the implementation computes it (torque/radius*tan(helix)); DESIGN.md O4']
    return finish(v, {})
