"""C05 driver: run real conversions / comparisons, record them, let Trace_Units decide."""
from __future__ import annotations
import random
from fractions import Fraction
from . import spectab
from .core import import_repo, rstr, Verdict, finish, Machinery
from .tv import validate


def qclass(kind):
    import_repo()
    import gearpy.units as U
    return getattr(U, kind)


def code_units(kind):
    """The unit names the implementation offers for a kind (read from the class, names only)."""
    cls = qclass(kind)
    for k in cls.__mro__:
        d = getattr(k, f'_{k.__name__}__UNITS', None)
        if isinstance(d, dict) and d:
            return sorted(d.keys())
    return []


def outcome(fn):
    try:
        return fn(), None
    except Exception as e:           # noqa
        return None, type(e).__name__


def qdesc(q, same_as=None):
    return {'ok': True, 'val': rstr(q.value), 'unit': q.unit, 'cls': type(q).__name__,
            'same_obj': bool(same_as is not None and q is same_as)}


def conv_event(i, kind, u1, u2, v: float):
    cls = qclass(kind)
    e = {'id': f'to{i}', 'ev': 'to', 'kind': kind, 'u1': u1, 'u2': u2, 'v': rstr(v)}
    src, err = outcome(lambda: cls(v, u1))
    if err:
        raise Machinery(f'generator produced an invalid quantity {kind}({v},{u1}): {err}')
    out, err = outcome(lambda: src.to(u2))
    e['out'] = qdesc(out, src) if err is None else {'ok': False, 'err': err, 'val': '0', 'unit': '', 'cls': '', 'same_obj': False}
    e['src_after'] = {'val': rstr(src.value), 'unit': src.unit}
    rec = cls(v, u1)
    inp, err = outcome(lambda: rec.to(u2, inplace=True))
    if err is None:
        e['inplace'] = {'ok': True, 'val': rstr(rec.value), 'unit': rec.unit, 'cls': type(rec).__name__,
                        'same_obj': inp is rec}
    else:
        e['inplace'] = {'ok': False, 'err': err, 'val': '0', 'unit': '', 'cls': '', 'same_obj': False}
    back, err = outcome(lambda: cls(v, u1).to(u2).to(u1))
    e['back'] = rstr(back.value) if err is None else 'nan'
    return e


OPS = {'eq': lambda a, b: a == b, 'ne': lambda a, b: a != b, 'lt': lambda a, b: a < b,
       'le': lambda a, b: a <= b, 'gt': lambda a, b: a > b, 'ge': lambda a, b: a >= b}


def cmp_side(a, b):
    res = {'ok': True}
    for name, f in OPS.items():
        r, err = outcome(lambda: f(a, b))
        if err is not None:
            return {'ok': False, 'err': err, **{k: False for k in OPS}}
        if not isinstance(r, bool):
            return {'ok': False, 'err': 'NotBool', **{k: False for k in OPS}}
        res[name] = r
    return res


def cmp_event(i, k1, u1, a: float, k2, u2, b: float, tag=''):
    A = qclass(k1)(a, u1)
    B = qclass(k2)(b, u2)
    return {'id': f'cmp{i}', 'ev': 'cmp', 'k1': k1, 'k2': k2, 'u1': u1, 'u2': u2,
            'a': rstr(a), 'b': rstr(b), 'tag': tag, 'res': cmp_side(A, B), 'rev': cmp_side(B, A)}


def chain_event(i, kind, path, v):
    """one object converted in place along `path`; observed through public API after every hop"""
    cls = qclass(kind)
    obj = cls(v, path[0])
    fresh = cls(v, path[0])
    hops = []
    for u in path[1:]:
        _, err = outcome(lambda: obj.to(u, inplace=True))
        if err is not None:
            hops.append({'ok': False, 'err': err, 'unit': u, 'val': '0', 'unit_seen': '', 'back': '0', 'eq_fresh': False, 'fresh_eq': False, 'lt_fresh': False, 'gt_fresh': False})
            break
        back, e2 = outcome(lambda: obj.to(path[0]))
        hops.append({'ok': True, 'err': '', 'unit': u, 'val': rstr(obj.value), 'unit_seen': obj.unit, 'back': rstr(back.value) if e2 is None else 'nan',
                     'eq_fresh': bool(obj == fresh), 'fresh_eq': bool(fresh == obj), 'lt_fresh': bool(obj < fresh), 'gt_fresh': bool(obj > fresh)})
    return {'id': f'ch{i}', 'ev': 'chain', 'kind': kind, 'u0': path[0], 'v': rstr(v), 'hops': hops}


def gen_chains(tier, rnd):
    evs, i = [], 0
    for kind in spectab.kinds():
        us = spectab.units_of(kind)
        for _ in range(6 if tier == 'quick' else 60):
            path = [rnd.choice(us) for _ in range(rnd.randint(3, 6))]
            v = float(f'{rnd.uniform(1, 10):.12g}e{rnd.randint(-6, 6)}')
            if not legal(kind, v):
                v = abs(v)
            evs.append(chain_event(i, kind, path, v)); i += 1
    return evs


def legal(kind, v):
    s = spectab.sign_rule(kind)
    return (v > 0) if s == 'pos' else (v >= 0) if s == 'nonneg' else True


def nearest_float(x: Fraction) -> float:
    return float(x)          # Fraction -> float is correctly rounded


def gen_conv(tier, rnd):
    fixed = [1.0, 3.7e-7, 2.5e9, -4103.25, 0.0, 7.3e-120, -9.99e140, 14268.19, 2, 1000, -7, 0]     # (ints are legal values too)
    evs, i = [], 0
    for kind in spectab.kinds():
        us = spectab.units_of(kind)
        for u1 in us:
            for u2 in us:
                vals = list(fixed)
                nrand = 2 if tier == 'quick' else 24
                for _ in range(nrand):
                    m = rnd.uniform(1, 10) * rnd.choice([1, -1])
                    ex = rnd.randint(-150, 150) if tier != 'quick' else rnd.randint(-30, 30)
                    vals.append(float(f'{m:.15g}e{ex}'))
                for v in vals:
                    if not legal(kind, v):
                        v = abs(v)
                        if not legal(kind, v):
                            continue
                    evs.append(conv_event(i, kind, u1, u2, v))
                    i += 1
    return evs


def gen_cmp(tier, rnd):
    evs, i = [], 0
    kinds = spectab.kinds()
    base_mags = [1.0, 1e-13, 14268.19, 3.3e11, 2.5e-7, 3]
    for k1 in kinds:
        for k2 in kinds:
            fam1 = spectab.tables()['table'][k1]['super']
            fam2 = spectab.tables()['table'][k2]['super']
            if fam1 != fam2:
                continue
            for u1 in spectab.units_of(k1):
                for u2 in spectab.units_of(k2):
                    mags = list(base_mags)
                    for _ in range(1 if tier == 'quick' else 8):
                        mags.append(float(f'{rnd.uniform(1, 10):.12g}e{rnd.randint(-40, 40)}'))
                    for a in mags:
                        A = spectab.to_si(Fraction(a), k1, u1)
                        # same magnitude, re-expressed in u2 (nearest double)
                        b_same = nearest_float(spectab.to_unit(A, k2, u2))
                        if b_same == 0.0 or b_same in (float('inf'),):
                            continue
                        evs.append(cmp_event(i, k1, u1, a, k2, u2, b_same, 'same')); i += 1
                        # clearly different magnitudes: relative gaps 1e-6 and 0.5, either side
                        for rel in (1e-6, -1e-6, 0.5, -0.3, 1e-10, -3e-11):       # (the last two: far above rounding, far below a percent)
                            b = nearest_float(spectab.to_unit(A * (1 + Fraction(rel)), k2, u2))
                            if legal(k2, b) and b != 0.0:
                                evs.append(cmp_event(i, k1, u1, a, k2, u2, b, f'gap{rel}')); i += 1
                        if legal(k1, -a) and legal(k2, -b_same):
                            # the same NEGATIVE magnitude in two units (equal: neither less nor greater), and opposite signs
                            evs.append(cmp_event(i, k1, u1, -a, k2, u2, -b_same, 'same-neg')); i += 1
                            if tier != 'quick':
                                evs.append(cmp_event(i, k1, u1, -a, k2, u2, b_same, 'sign')); i += 1
                    if legal(k1, 0.0) and legal(k2, 0.0):
                        evs.append(cmp_event(i, k1, u1, 0.0, k2, u2, 0.0, 'zero')); i += 1
                        for tiny in (1e-20, 3e-9):
                            evs.append(cmp_event(i, k1, u1, 0.0, k2, u2, tiny, 'zero-vs-tiny')); i += 1
    # cross-kind comparisons raise TypeError (beyond the listed statement; modelled behaviour)
    for k1 in kinds:
        for k2 in kinds:
            f1 = spectab.tables()['table'][k1]['super']
            f2 = spectab.tables()['table'][k2]['super']
            if f1 != f2:
                evs.append(cmp_event(i, k1, spectab.si_unit(k1), 1.0, k2, spectab.si_unit(k2), 1.0, 'cross')); i += 1
    return evs


def table_mismatch():
    """Unit lists of the code vs the spec (names only).  A unit the code offers and the spec does not
    derive (or the reverse) is reported as a violation of C05's 'all units' coverage."""
    bad = []
    for kind in spectab.kinds():
        c, s = set(code_units(kind)), set(spectab.units_of(kind))
        if c != s:
            bad.append({'clause': 'UnitListMismatch', 'kind': kind, 'only_code': sorted(c - s), 'only_spec': sorted(s - c)})
    return bad


def run(tier: str, seed: int, known_matchers=None) -> int:
    v = Verdict('C05', tier, seed)
    rnd = random.Random(seed)
    tabs = spectab.tables()
    for b in table_mismatch():
        v.violation(b)
    conv = gen_conv(tier, rnd)
    cmpv = gen_cmp(tier, rnd)
    chains = gen_chains(tier, rnd)
    # conversions and comparisons the repository's own unit tests perform (recorded by a pytest plugin that lives in /verif)
    from . import repo_units
    ru = repo_units.events(tier, seed)
    repo_ev = [e for e in ru['events'] if e['ev'] in ('rto', 'rcmp')]
    v.extra.update(repo_test_conversion_events=sum(e['ev'] == 'rto' for e in repo_ev), repo_test_comparison_events=sum(e['ev'] == 'rcmp' for e in repo_ev),
                   repo_tests_run=ru['pytest_tail'])
    evs = conv + cmpv + chains + repo_ev
    res = validate('Trace_Units', evs)
    v.states, v.transitions = res.states, res.transitions
    v.traces = len(evs)
    v.evaluations = len(evs)
    byid = {e['id']: e for e in evs}
    pairs = set()
    for e in conv:
        pairs.add((e['kind'], e['u1'], e['u2']))
    v.distinct = len({(e['kind'], e['u1'], e['u2'], e['v']) for e in conv}) + \
        len({(e['k1'], e['u1'], e['u2'], e['k2'], e['a'], e['b']) for e in cmpv})
    for tid, fails in res.fails.items():
        if fails:
            e = byid[tid]
            v.violation({'clauses': fails, 'event': e})
    v.rule = ('every kind x every ordered unit pair (enumerated from the table TLC exports from Units.tla) x value grid '
              '(fixed decades + seeded random mantissas/exponents in the kind\'s legal sign domain); comparisons: every '
              'same-family kind pair x ordered unit pair x {same magnitude re-expressed, relative gaps 1e-6/0.5 either side, '
              'zero, zero-vs-tiny, sign}; plus every top-level to() / comparison the repository\'s own unit tests perform on well-formed operands '
              '(one per (call, kinds, units) bucket); distinct = distinct (kind,units,values) tuples')
    v.exhaustive = False
    v.extra['ordered_unit_pairs_covered'] = len(pairs)
    v.extra['unit_pairs_exhaustive'] = True
    v.extra['conversion_events'] = len(conv)
    v.extra['comparison_events'] = len(cmpv)
    v.extra['inplace_chain_events'] = len(chains)
    v.sample(conv[3]); v.sample(cmpv[0]); v.sample(cmpv[len(cmpv) // 2])
    v.assumptions = ['BigRat override (cross-checked by RatLaws)', 'values restricted to 1e-150..1e150 so results stay normal doubles',
                     'pi as a 50-digit rational']
    return finish(v, known_matchers)
