"""C18 driver: snapshot tables and exported CSV files of real simulated powertrains vs Snapshot.tla."""
from __future__ import annotations
import itertools, math, os, random, shutil, tempfile, io, contextlib
from fractions import Fraction
from . import solver_gen, solver_rec, spectab
from .core import import_repo, rstr, Verdict, finish, Machinery
from .tv import validate
from .units_drv import outcome

VARS = ['angular_position', 'angular_speed', 'angular_acceleration', 'torque', 'driving_torque', 'load_torque',
        'tangential_force', 'bending_stress', 'contact_stress', 'electric_current', 'pwm']
SP = {v: v.replace('_', ' ') for v in VARS}
UNIT_ARG = {'angular_position': ('angular_position_unit', 'AngularPosition'), 'angular_speed': ('angular_speed_unit', 'AngularSpeed'),
            'angular_acceleration': ('angular_acceleration_unit', 'AngularAcceleration'), 'torque': ('torque_unit', 'Torque'),
            'driving_torque': ('driving_torque_unit', 'Torque'), 'load_torque': ('load_torque_unit', 'Torque'),
            'force': ('force_unit', 'Force'), 'stress': ('stress_unit', 'Stress'), 'current': ('current_unit', 'Current')}


def simulated(rnd, i):
    """a small simulated powertrain with as many recorded variable kinds as possible"""
    for attempt in range(4000):
        elems = solver_gen.random_chain(rnd, rnd.randint(3, 7) if i % 3 else rnd.randint(4, 7), with_current=(i % 3 != 0), stress=True)
        if i % 3 == 0 and not any(e['rel']['type'] == 'gear' and e['teeth'] == elems[j - 1]['teeth'] and e['rel']['arg'] != 1 for j, e in enumerate(elems) if j >= 1):
            continue                   # every third powertrain has a lossy mating whose ratio is exactly 1 (its two gears do NOT share their torques)
        if i % 4 != 3:
            solver_gen.complete_data(elems, rnd)
        # give gears full data where possible so that force / stresses are recorded
        inst = {'elems': elems, 'load': solver_gen.random_load(rnd, elems, 'small'), 'ctrls': [], 'stops': []}
        dt = solver_gen.pick_dt(rnd, elems)
        n = rnd.randint(1, 7)
        if i % 2 == 0:
            inst['load_unit_cycle'] = rnd.sample(['Nm', 'mNm', 'kgfcm', 'mNmm', 'kNm', 'gfm'], 3)      # histories whose samples do not share one unit
        inst['ops'] = [{'op': 'set_initial', 'pos': Fraction(0), 'spd': Fraction(0)}, {'op': 'new_solver', 'sid': 1},
                       {'op': 'run', 'sid': 1, 'dt': dt, 'T': dt * (n + 1), 'dt_unit': rnd.choice(solver_gen.TIME_UNITS), 'T_unit': rnd.choice(solver_gen.TIME_UNITS)}]
        try:
            b = solver_rec.build(inst, None)
        except ValueError:
            continue
        from gearpy.solver import Solver
        b['objs'][-1].angular_position = b['q']('AngularPosition', 0)
        b['objs'][-1].angular_speed = b['q']('AngularSpeed', 0)
        op = inst['ops'][2]
        # in every other powertrain the duty cycle VARIES along the history (a control with one or two rules, re-used by every run)
        ctl = None
        if i % 2 == 1:
            rules = [r for r in solver_gen.random_rules(rnd, elems, dt, n + 1, kind=rnd.choice([1, 2])) if r['type'] != 'custom']
            if rules:
                ctl = solver_rec.make_control(b, rules, {'events': {'rule': [], 'control': [], 'sensor': []}})
        _run = Solver.run

        def run_with(solver, *a):
            return _run(solver, *a, motor_control=ctl)
        _, err = outcome(lambda: run_with(Solver(b['pt']), b['q']('TimeInterval', op['dt'], op['dt_unit']), b['q']('TimeInterval', op['T'], op['T_unit'])))
        if err is None and i % 2 == 0:
            # continue in OTHER time units (and another step): the recorded axis then holds instants of mixed units
            u1 = rnd.choice([u for u in solver_gen.TIME_UNITS if u != op['dt_unit']])      # (really ANOTHER unit than the first run's)
            u2 = rnd.choice(solver_gen.TIME_UNITS)
            d2 = op['dt'] * rnd.choice([Fraction(1), Fraction(1, 2), Fraction(2)])
            _, err = outcome(lambda: run_with(Solver(b['pt']), b['q']('TimeInterval', d2, u1), b['q']('TimeInterval', d2 * rnd.randint(2, 5), u2)))
        if err is None and i % 3 == 1:
            # a history that REPLACED an earlier, longer one: reset, re-apply the initial conditions, simulate fewer instants
            _, err = outcome(b['pt'].reset)
            b['objs'][-1].angular_position = b['q']('AngularPosition', 0)
            b['objs'][-1].angular_speed = b['q']('AngularSpeed', 0)
            if err is None:
                _, err = outcome(lambda: run_with(Solver(b['pt']), b['q']('TimeInterval', op['dt'], op['dt_unit']), b['q']('TimeInterval', op['dt'] * 2, op['dt_unit'])))
        if err is None and i % 3 == 2:
            # a history that REPLACED an earlier one of the SAME length on another grid, with the tables already queried
            # once on the earlier history (whatever the calls keep between queries must not outlive reset())
            import contextlib as _c, io as _io
            n_inst = len(b['pt'].time)
            with _c.redirect_stdout(_io.StringIO()):
                outcome(lambda: b['pt'].snapshot(target_time=b['pt'].time[n_inst // 2], print_data=False))
            _, err = outcome(b['pt'].reset)
            b['objs'][-1].angular_position = b['q']('AngularPosition', 0)
            b['objs'][-1].angular_speed = b['q']('AngularSpeed', 0)
            if err is None:
                d3 = op['dt'] * rnd.choice([Fraction(1, 2), Fraction(3, 4), Fraction(3, 2)])
                u3 = rnd.choice(solver_gen.TIME_UNITS)
                _, err = outcome(lambda: run_with(Solver(b['pt']), b['q']('TimeInterval', d3, u3), b['q']('TimeInterval', d3 * (n_inst - 1), u3)))
                if err is None and len(b['pt'].time) != n_inst:
                    err = 'length'
        if err is None and i % 2 == 0:
            # whatever happened so far, the history that is finally queried is NOT uniformly spaced: one more continuation with a step
            # that differs from the step of the instants before it (the tables are looked up on the recorded instants, not on a grid)
            tl = b['pt'].time
            last_step = Fraction(tl[-1].to('sec').value) - Fraction(tl[-2].to('sec').value)
            d4 = last_step * rnd.choice([Fraction(1, 2), Fraction(2), Fraction(3, 4), Fraction(5, 2)])
            u4 = rnd.choice(solver_gen.TIME_UNITS)
            _, err = outcome(lambda: run_with(Solver(b['pt']), b['q']('TimeInterval', d4, u4), b['q']('TimeInterval', d4 * rnd.randint(2, 4), u4)))
        if err is None and i % 2 == 1:
            pw = b['objs'][0].time_variables.get('pwm', [])
            if len({float(x) for x in pw}) < 2:
                continue                   # the control never changed the duty cycle: draw another one (the 'pwm' column must VARY)
        if err is None:
            if i % 2 == 0:
                # the user goes on working with the elements after the simulation (re-zeroes the output, nudges a speed) WITHOUT
                # simulating: the tables are tables of the recorded history, whatever the live attributes are by now
                o_last = b['objs'][-1]
                o_last.angular_position = b['q']('AngularPosition', Fraction(5, 4))
                o_mid = b['objs'][1]
                o_mid.angular_speed = type(o_mid.angular_speed)(o_mid.angular_speed.value * 1.02 + 0.5, o_mid.angular_speed.unit)
                b['objs'][0].torque = type(b['objs'][0].torque)(b['objs'][0].torque.value * 0.9 + 0.01, b['objs'][0].torque.unit)
            return b
    raise Machinery('no simulated powertrain')


def units_choice(rnd, default=False):
    u = {}
    for k, (arg, kind) in UNIT_ARG.items():
        u[k] = spectab.si_unit(kind) if default else rnd.choice(spectab.units_of(kind))
    if default:
        u['stress'] = 'MPa'
    return u


def snap_event(eid, b, time, hist, t_si, tunit, sel, units, tq=None):
    import_repo()
    from gearpy.units import Time
    pt = b['pt']
    if tq is None:
        tq = Time(float(spectab.to_unit(Fraction(t_si), 'Time', tunit)), tunit)
    kwargs = {arg: units[k] for k, (arg, kind) in UNIT_ARG.items()}
    variables = None if sel is None else [SP[v] for v in sel]
    with contextlib.redirect_stdout(io.StringIO()):
        df, err = outcome(lambda: pt.snapshot(target_time=tq, variables=variables, print_data=False, **kwargs))
    e = {'id': eid, 'ev': 'snapshot', 'time': time, 'hist': hist, 'names': [o.name for o in pt.elements],
         't': rstr(spectab.to_si(Fraction(tq.value), 'Time', tunit)), 'sel': [] if sel is None else list(sel), 'units': units}
    if err is not None:
        e['out'] = {'ok': False, 'err': err, 'columns': [], 'rows': {}}
        return e
    rows = {}
    for name in df.index:
        rows[str(name)] = {}
        for c in df.columns:
            x = df.loc[name, c]
            try:
                f = float(x)
            except (TypeError, ValueError):
                f = float('nan')
            rows[str(name)][str(c)] = 'nan' if f != f else rstr(f)
    e['out'] = {'ok': True, 'err': '', 'columns': [str(c) for c in df.columns], 'rows': rows}
    return e


def export_event(eid, b, time, hist, units, tunit):
    import pandas as pd
    pt = b['pt']
    d = tempfile.mkdtemp(prefix='verif-exp-')
    try:
        kwargs = {arg: units[k] for k, (arg, kind) in UNIT_ARG.items()}
        _, err = outcome(lambda: pt.export_time_variables(folder_path=os.path.join(d, 'out'), time_unit=tunit, **kwargs))
        e = {'id': eid, 'ev': 'export', 'time': time, 'hist': hist, 'units': units, 'tunit': tunit}
        if err is not None:
            e['out'] = {'ok': False, 'err': err, 'files': []}
            return e
        files = []
        for o in pt.elements:
            fp = os.path.join(d, 'out', o.name + '.csv')
            if not os.path.exists(fp):
                files.append({'columns': [], 'data': {}})
                continue
            df = pd.read_csv(fp)
            files.append({'columns': [str(c) for c in df.columns],
                          'data': {str(c): ['nan' if float(x) != float(x) else rstr(float(x)) for x in df[c]] for c in df.columns}})
        e['out'] = {'ok': True, 'err': '', 'files': files}
        return e
    finally:
        shutil.rmtree(d, ignore_errors=True)


PLOT_ARG = {'angular_position': 'angular_position_unit', 'angular_speed': 'angular_speed_unit', 'angular_acceleration': 'angular_acceleration_unit',
            'torque': 'torque_unit', 'force': 'force_unit', 'stress': 'stress_unit', 'current': 'current_unit'}


def plot_event(eid, b, time, hist, elsel, by_name, sel, units, tunit):
    """Powertrain.plot on the Agg backend: the figure is read back (grid geometry, titles, every line's label and data)"""
    import matplotlib
    matplotlib.use('Agg')
    import matplotlib.pyplot as plt
    pt = b['pt']
    units = dict(units)
    units['driving_torque'] = units['load_torque'] = units['torque']          # one torque unit governs the three torques of the figure
    kwargs = {arg: units[k] for k, arg in PLOT_ARG.items()}
    elements = None if elsel is None else [(pt.elements[k].name if by_name else pt.elements[k]) for k in elsel]
    variables = None if sel is None else [SP[v] for v in sel]
    show = plt.show
    plt.show = lambda *a, **k: None
    plt.close('all')
    try:
        with contextlib.redirect_stdout(io.StringIO()):
            _, err = outcome(lambda: pt.plot(elements=elements, variables=variables, time_unit=tunit, **kwargs))
        idx = sorted(range(len(pt.elements)) if elsel is None else set(elsel))
        e = {'id': eid, 'ev': 'plot', 'time': time, 'hist': hist, 'names': [o.name for o in pt.elements], 'elsel': [k + 1 for k in idx],
             'sel': [] if sel is None else list(sel), 'units': units, 'tunit': tunit}
        if err is not None:
            e['out'] = {'ok': False, 'err': err, 'nrows': 0, 'ncols': 0, 'cells': []}
            return e
        fig = plt.gcf()
        cells, geo = [], (0, 0)
        for a in fig.axes:
            ss = a.get_subplotspec()
            if ss is None:
                continue
            geo = ss.get_gridspec().get_geometry()
            lines = []
            for ln in a.get_lines():
                lines.append({'label': str(ln.get_label()), 'x': [num_cell(x) for x in ln.get_xdata()], 'y': [num_cell(y) for y in ln.get_ydata()]})
            cells.append({'row': ss.rowspan.start + 1, 'col': ss.colspan.start + 1, 'title': str(a.get_title()), 'lines': lines})
        e['out'] = {'ok': True, 'err': '', 'nrows': geo[0], 'ncols': geo[1], 'cells': cells}
        return e
    finally:
        plt.close('all')
        plt.show = show


def num_cell(x):
    try:
        f = float(x)
    except (TypeError, ValueError):
        return 'nan'
    return 'nan' if f != f or f in (float('inf'), float('-inf')) else rstr(f)


def gen(tier, seed):
    import_repo()
    rnd = random.Random(seed)
    evs = []
    n = [0]

    def eid():
        n[0] += 1
        return f's{n[0]}'
    n_pt = 6 if tier == 'quick' else 40
    stats = {'subsets': 0, 'powertrains': n_pt}
    for i in range(n_pt):
        b = simulated(rnd, i)
        time, hist, _ = solver_rec.read_hist(b['pt'])
        avail = [v for v in VARS if any(v in h and len(h[v]) > 0 for h in hist)]
        tsi = [Fraction(x) if '/' not in x else Fraction(int(x.split('/')[0]), int(x.split('/')[1])) for x in time]
        # target times: on instants, between them, both ends
        targets = [('instant', 0), ('instant', len(tsi) - 1)]       # the recorded Time objects themselves (exactly inside the interval)
        if len(tsi) > 2:
            targets.append(('instant', len(tsi) // 2))
        for _ in range(2 if tier == 'quick' else 4):
            j = rnd.randrange(len(tsi) - 1)
            targets.append(tsi[j] + (tsi[j + 1] - tsi[j]) * Fraction(rnd.randint(1, 99), 100))
        # every recorded instant and the middle of every interval, for the table of all variables
        for j in range(len(tsi)):
            tq = b['pt'].time[j]
            evs.append(snap_event(eid(), b, time, hist, tsi[j], tq.unit, None, units_choice(rnd, default=(j % 2 == 0)), tq))
            if j + 1 < len(tsi):
                evs.append(snap_event(eid(), b, time, hist, (tsi[j] + tsi[j + 1]) / 2, rnd.choice(solver_gen.TIME_UNITS), None, units_choice(rnd, default=(j % 2 == 1))))
        stats['instants_and_midpoints'] = stats.get('instants_and_midpoints', 0) + 2 * len(tsi) - 1
        # variable selections
        sels = [None] + [(v,) for v in avail] + [tuple(v for v in avail if v != w) for w in avail]
        sels += [c for c in itertools.combinations(avail, 2)][: (12 if tier == 'quick' else 10**6)]
        if tier == 'quick':
            for _ in range(15):
                k = rnd.randint(2, len(avail))
                sels.append(tuple(sorted(rnd.sample(avail, k), key=VARS.index)))
        elif i < 6:
            sels = [None] + [c for k in range(1, len(avail) + 1) for c in itertools.combinations(avail, k)]      # every non-empty subset
        stats['subsets'] += len(sels)
        for s_i, sel in enumerate(sels):
            t = targets[s_i % len(targets)]
            units = units_choice(rnd, default=(s_i % 4 == 0))
            if isinstance(t, tuple):
                tq = b['pt'].time[t[1]]
                evs.append(snap_event(eid(), b, time, hist, tsi[t[1]], tq.unit, sel, units, tq))
            else:
                evs.append(snap_event(eid(), b, time, hist, t, rnd.choice(solver_gen.TIME_UNITS), sel, units))
        for _ in range(2 if tier == 'quick' else 6):
            evs.append(export_event(eid(), b, time, hist, units_choice(rnd), rnd.choice(solver_gen.TIME_UNITS)))
        evs.append(export_event(eid(), b, time, hist, units_choice(rnd, default=True), 'sec'))
        # the figure of the same history (growth beyond the listed properties): element selections x variable selections
        n_el = len(b['pt'].elements)
        psels = [(None, None)] + [(None, (v,)) for v in avail] + [((k,), None) for k in range(n_el)]
        for _ in range(6 if tier == 'quick' else 25):
            es = tuple(rnd.sample(range(n_el), rnd.randint(1, n_el)))           # any order: the figure follows the powertrain's order
            vs = tuple(sorted(rnd.sample(avail, rnd.randint(1, len(avail))), key=VARS.index))
            psels.append((es, vs))
        for p_i, (es, vs) in enumerate(psels):
            evs.append(plot_event(eid(), b, time, hist, es, p_i % 2 == 1, vs, units_choice(rnd, default=(p_i % 4 == 0)), rnd.choice(solver_gen.TIME_UNITS)))
        stats['figures'] = stats.get('figures', 0) + len(psels)
    return evs, stats


def run_C18(tier, seed):
    v = Verdict('C18', tier, seed)
    evs, stats = gen(tier, seed)
    res = validate('Trace_Snapshot', evs)
    v.states, v.transitions = res.states, res.transitions
    v.traces = v.evaluations = len(evs)
    byid = {e['id']: e for e in evs}
    for tid, fails in res.fails.items():
        if fails and byid[tid]['ev'] == 'plot':
            # Powertrain.plot is outside C18's statement: a mismatch is a note in the evidence, never a verdict
            e = byid[tid]
            v.extra.setdefault('plot_mismatches', []).append({'clauses': fails, 'event': {k: e[k] for k in ('id', 'elsel', 'sel', 'units', 'tunit')}, 'error': e['out'].get('err')})
        elif fails:
            e = byid[tid]
            v.violation({'clauses': fails, 'event': {k: e[k] for k in e if k not in ('time', 'hist', 'out')}, 'columns': e['out'].get('columns'),
                         'rows': e['out'].get('rows') if e['ev'] == 'snapshot' else None})
    # growth beyond the listed properties: documented error contracts of the public calls (reported as notes, never as a verdict)
    from . import api_drv
    aev = api_drv.events()
    ares = validate('Trace_Api', aev, shards=1)
    v.states += ares.states; v.transitions += ares.transitions
    aby = {e['id']: e for e in aev}
    v.extra['api_contract_events'] = len(aev)
    v.extra['api_contract_mismatches'] = [{'clauses': f, 'event': aby[t]} for t, f in ares.fails.items() if f]
    v.distinct = len({(e['ev'], tuple(e.get('sel', [])), tuple(e.get('elsel', [])), str(e['units']), e.get('t'), tuple(e['names']) if 'names' in e else ()) for e in evs})
    v.rule = ('real simulated powertrains (seeded random chains with force / stress / current variables recorded where the data allow); snapshot at recorded instants, between them and at both ends, target time in '
              'any time unit, variable selections {none, every singleton, every complement, pairs, random subsets' + ('' if tier == 'quick' else ', EVERY non-empty subset for the first six powertrains') +
              '}, output units drawn from every unit list; export to CSV in random units, re-read; TLC checks columns, every cell (linear interpolation, unit conversion, NaN exactly where the element does not record the variable) and every CSV value')
    v.extra.update(stats)
    v.extra['plot_events'] = sum(1 for e in evs if e['ev'] == 'plot')
    v.extra.setdefault('plot_mismatches', [])
    v.sample({k: evs[0][k] for k in ('id', 'ev', 't', 'sel', 'units')} | {'columns': evs[0]['out']['columns']})
    v.sample({k: evs[-1][k] for k in ('id', 'ev', 'units', 'tunit')})
    v.assumptions = ['only variables at least one element records are requested (others raise ValueError by contract)']
    return finish(v, {})
