"""C10 / C20 drivers.  Spec -> code: call sequences enumerated / simulated by TLC on MC_Relations are
replayed on real gearpy objects; code -> spec: the recorded executions (and seeded random ones with real-valued
parameters in random units) are validated by Trace_Relations.tla after every call."""
from __future__ import annotations
import json, math, random
from fractions import Fraction
from . import spectab
from .core import import_repo, rstr, Verdict, finish, run_tlc, require_ok, frac, Machinery
from .tv import validate
from .units_drv import outcome

N = 'null'


def q_len(si, rnd=None):
    from gearpy.units import Length
    u = 'm' if rnd is None else rnd.choice(spectab.units_of('Length'))
    return Length(float(spectab.to_unit(Fraction(si), 'Length', u)), u)


def q_angle_from_t(t, rnd=None):
    from gearpy.units import Angle
    rad = 2 * math.atan(float(t))
    u = 'rad' if rnd is None else rnd.choice(spectab.units_of('Angle'))
    return Angle(float(spectab.to_unit(Fraction(rad), 'Angle', u)), u)


def build(desc, rnd=None):
    """desc: spec-side static data (kind, teeth, module, th, alpha[rad], name)"""
    import_repo()
    from gearpy.mechanical_objects import DCMotor, Flywheel, SpurGear, HelicalGear, WormGear, WormWheel
    from gearpy.units import InertiaMoment, AngularSpeed, Torque, Angle
    J = InertiaMoment(1, 'kgm^2')
    k = desc['kind']
    mod = None if desc['module'] == N else q_len(frac(desc['module']), rnd)
    if k == 'DCMotor':
        return DCMotor(desc['name'], J, AngularSpeed(100, 'rad/s'), Torque(1, 'Nm'))
    if k == 'Flywheel':
        return Flywheel(desc['name'], J)
    if k == 'SpurGear':
        return SpurGear(desc['name'], desc['teeth'], J, module=mod)
    if k == 'HelicalGear':
        return HelicalGear(desc['name'], desc['teeth'], J, q_angle_from_t(frac(desc['th']), rnd), module=mod)
    alpha_deg = round(float(frac(desc['alpha'])) * 180 / math.pi, 6)
    alpha = Angle(alpha_deg, 'deg')
    if k == 'WormGear':
        return WormGear(desc['name'], desc['teeth'], J, q_angle_from_t(frac(desc['th']), rnd), alpha)
    if k == 'WormWheel':
        return WormWheel(desc['name'], desc['teeth'], J, q_angle_from_t(frac(desc['th']), rnd), alpha, module=mod)
    raise Machinery('kind ' + k)


def static(o):
    """static data as the real object holds it"""
    from gearpy.mechanical_objects import DCMotor, Flywheel, SpurGear, HelicalGear, WormGear, WormWheel
    d = {'kind': type(o).__name__, 'teeth': 0, 'module': N, 'th': N, 'alpha': N, 'name': o.name}
    if isinstance(o, WormGear):
        d['teeth'] = o.n_starts
    elif isinstance(o, SpurGear):
        d['teeth'] = o.n_teeth
        if o.module is not None:
            d['module'] = rstr(spectab.to_si(Fraction(o.module.value), 'Length', o.module.unit))
    if hasattr(o, 'helix_angle'):
        d['th'] = rstr(math.tan(o.helix_angle.to('rad').value / 2))
    if hasattr(o, 'pressure_angle'):
        d['alpha'] = rstr(spectab.to_si(Fraction(o.pressure_angle.value), 'Angle', o.pressure_angle.unit))
    return d


def project(objs):
    ident = {id(o): k for k, o in objs.items()}
    from gearpy.mechanical_objects import MatingMaster, MatingSlave

    def ref(x):
        return N if x is None else ident.get(id(x), '?')
    out = {}
    for k, o in objs.items():
        role = getattr(o, 'mating_role', None)
        ratio = getattr(o, 'master_gear_ratio', None)
        eff = getattr(o, 'master_gear_efficiency', 1)
        sl = getattr(o, 'self_locking', None)
        out[k] = {'drives': ref(getattr(o, 'drives', None)), 'drivenBy': ref(getattr(o, 'driven_by', None)),
                  'role': 'master' if role is MatingMaster else 'slave' if role is MatingSlave else 'none',
                  'ratio': N if ratio is None else rstr(ratio), 'eff': rstr(eff),
                  'sl': N if sl is None else ('true' if sl else 'false')}
    return out


def pyarg(arg):
    if not arg['isnum']:
        return 'not-a-number'
    f = frac(arg['v'])
    return int(f) if f.denominator == 1 else float(f)


def execute(tid, universe, calls, rnd=None):
    """universe: id -> spec static desc; calls: list of {call, m, s, arg}.  Objects are created lazily
    but every created object is re-read after every call."""
    import_repo()
    from gearpy.utils import add_gear_mating, add_worm_gear_mating, add_fixed_joint
    from gearpy.powertrain import Powertrain
    used = []
    for c in calls:
        for k in (c['m'], c['s']):
            if k not in used:
                used.append(k)
    objs = {k: build(universe[k], rnd) for k in used}
    steps, pts = [], []
    for c in calls:
        m, s = objs[c['m']], objs[c['s']]
        a = pyarg(c['arg'])
        st = {'call': c['call'], 'm': c['m'], 's': c['s'],
              'arg': {'isnum': c['arg']['isnum'], 'v': rstr(a) if c['arg']['isnum'] else '0'},
              'elements': [], 'selfLocking': False, 'assign_raises': True}
        if c['call'] == 'gear':
            _, err = outcome(lambda: add_gear_mating(m, s, a))
        elif c['call'] == 'worm':
            _, err = outcome(lambda: add_worm_gear_mating(m, s, a))
        elif c['call'] == 'joint':
            _, err = outcome(lambda: add_fixed_joint(m, s))
        else:
            # guard the one input on which the implementation does not return (drives-cycle, observation O1)
            from gearpy.mechanical_objects import MotorBase
            seen, x = set(), m
            while x is not None and id(x) not in seen:
                seen.add(id(x)); x = getattr(x, 'drives', None)
            if x is not None and isinstance(m, MotorBase):      # a non-motor is refused before the chain is walked
                st.update(t='diverges', err='', attrs=project(objs), pts=[dict(p) for p in _pts(pts, objs)])
                steps.append(st)
                continue
            pt, err = outcome(lambda: Powertrain(m))
            if err is None:
                pts.append(pt)
                ident = {id(o): k for k, o in objs.items()}
                st['elements'] = [ident.get(id(e), '?') for e in pt.elements]
                st['selfLocking'] = bool(pt.self_locking)
                r1 = outcome(lambda: setattr(pt, 'elements', ()))[1]
                r2 = outcome(lambda: setattr(pt, 'self_locking', not pt.self_locking))[1]
                st['assign_raises'] = r1 is not None and r2 is not None
        st['t'] = 'ok' if err is None else 'raise'
        st['err'] = err or ''
        st['attrs'] = project(objs)
        st['pts'] = _pts(pts, objs)
        steps.append(st)
    return {'id': tid, 'objs': {k: static(o) for k, o in objs.items()}, 'steps': steps}


def _pts(pts, objs):
    ident = {id(o): k for k, o in objs.items()}
    return [{'elements': [ident.get(id(e), '?') for e in p.elements], 'selfLocking': bool(p.self_locking)} for p in pts]


# ------------------------------------------------------------------ TLC-generated call sequences
def tlc_behaviours(cfg, simulate=None, depth=None, seed=None, workers=4):
    r = run_tlc('MC_Relations', cfg, workers=workers, simulate=simulate, depth=depth, seed=seed, timeout=1800)
    require_ok(r, 'MC_Relations ' + cfg)
    beh = []
    for ln in r.prints:
        if ln.startswith('B '):
            beh.append(json.loads(ln[2:]))
    return r, beh


def universe_from_spec():
    """The object universe of MC_Relations, exported by TLC."""
    r = run_tlc('MC_RelationsU', 'MC_RelationsU.cfg', workers=1)
    require_ok(r, 'MC_RelationsU')
    for ln in r.prints:
        if ln.startswith('UNIVERSE '):
            return json.loads(ln[9:])
    raise Machinery('no universe exported')


def calls_of(beh):
    return [{'call': e['call'], 'm': e['m'], 's': e['s'], 'arg': e['arg']} for e in beh]


# ------------------------------------------------------------------ seeded random real-valued campaigns
def random_universe(rnd):
    uni = {}
    mods = [N, '0.001', '0.002', rstr(Fraction('0.001') * (1 + Fraction(1, 10**6)))]
    ts = [Fraction(rnd.uniform(0.02, 0.2)).limit_denominator(10**6) for _ in range(2)]
    if rnd.random() < 0.2:
        ts[0] = Fraction(0)                    # a helical gear whose helix angle is exactly 0
    alphas = ['14.5', '20', '25', '30']
    uni['M'] = {'kind': 'DCMotor', 'teeth': 0, 'module': N, 'th': N, 'alpha': N, 'name': 'M'}
    uni['F'] = {'kind': 'Flywheel', 'teeth': 0, 'module': N, 'th': N, 'alpha': N, 'name': 'F'}
    for i in range(3):
        uni[f'S{i}'] = {'kind': 'SpurGear', 'teeth': rnd.randint(10, 90), 'module': rnd.choice(mods), 'th': N, 'alpha': N, 'name': f'S{i}'}
    for i in range(3):
        uni[f'H{i}'] = {'kind': 'HelicalGear', 'teeth': rnd.randint(10, 90), 'module': rnd.choice(mods), 'th': rstr(rnd.choice(ts)), 'alpha': N,
                        'name': rnd.choice([f'H{i}', 'S0'])}
    al = [rnd.choice(alphas) for _ in range(2)]
    maxh = {'14.5': 16, '20': 25, '25': 35, '30': 45}
    for i in range(2):
        a = al[i]
        h = rnd.uniform(0.5, maxh[a] - 0.1) if rnd.random() < 0.7 else rnd.uniform(maxh[a] - 5, maxh[a] - 0.1)     # steep helices too
        t = Fraction(math.tan(math.radians(h) / 2)).limit_denominator(10**7)
        uni[f'W{i}'] = {'kind': 'WormGear', 'teeth': rnd.randint(1, 4), 'module': N, 'th': rstr(t), 'alpha': rstr(spectab.to_si(Fraction(a), 'Angle', 'deg')), 'name': f'W{i}'}
        a2 = a if rnd.random() < 0.8 else rnd.choice(alphas)
        t2 = t if (rnd.random() < 0.8 and h < maxh[a2] - 0.1) else Fraction(math.tan(math.radians(rnd.uniform(0.5, maxh[a2] - 0.1)) / 2)).limit_denominator(10**7)
        uni[f'X{i}'] = {'kind': 'WormWheel', 'teeth': rnd.randint(10, 120), 'module': rnd.choice(mods), 'th': rstr(t2), 'alpha': rstr(spectab.to_si(Fraction(a2), 'Angle', 'deg')), 'name': f'X{i}'}
    return uni


def random_calls(rnd, uni, n):
    keys = list(uni)
    calls = []
    typed = {'gear': [k for k in keys if uni[k]['kind'] in ('SpurGear', 'HelicalGear', 'WormWheel')],
             'worm': [k for k in keys if uni[k]['kind'] in ('WormGear', 'WormWheel')]}
    for _ in range(n):
        if calls and rnd.random() < 0.15:
            calls.append(dict(rnd.choice(calls)))          # an earlier call issued AGAIN (route back / re-declare)
            continue
        c = rnd.choice(['gear', 'gear', 'worm', 'worm', 'joint', 'joint', 'assemble'])
        pool = typed.get(c, keys) if rnd.random() < 0.85 else keys
        m, s = rnd.choice(pool), rnd.choice(pool)
        if c == 'assemble':
            m = s = rnd.choice(['M', 'M', 'M', rnd.choice(keys)])
        r = rnd.random()
        if r < 0.08:
            arg = {'isnum': False, 'v': '0'}
        elif r < 0.2:
            arg = {'isnum': True, 'v': rstr(rnd.choice([0, 1, -0.25, 1.5, 1.0000001, -1e-9]))}
        else:
            hi = 1 if c == 'gear' or rnd.random() < 0.4 else 0.6                  # the whole legal friction range [0, 1] as well
            arg = {'isnum': True, 'v': rstr(float(f'{rnd.uniform(0, hi):.6g}'))}
            worm = next((uni[x] for x in (m, s) if uni[x]['kind'] == 'WormGear'), None)
            if c == 'worm' and worm is not None and rnd.random() < 0.4:
                # a friction coefficient a little below / above the self-locking threshold cos(alpha) tan(beta) of the worm involved
                # (from 1e-6 to 8 % away: far outside rounding, well inside what a slightly wrong formula would move)
                beta = 2 * math.atan(float(Fraction(worm['th'])))
                thr = math.cos(float(Fraction(worm['alpha']))) * math.tan(beta)
                f = thr * (1 + rnd.choice([-1, 1]) * rnd.choice([1e-6, 1e-4, 1e-3, 0.01, 0.03, 0.08]))
                if 0 <= f <= 1:
                    arg = {'isnum': True, 'v': rstr(float(f'{f:.9g}'))}
        calls.append({'call': c, 'm': m, 's': s, 'arg': arg})
    return calls


def chain_calls(rnd, uni, n_elems):
    """a declaration sequence that really builds a chain of n_elems elements from the motor, possibly re-routing"""
    keys = [k for k in uni if k != 'M']
    rnd.shuffle(keys)
    chain = ['M'] + keys[:n_elems - 1]
    calls = []
    for a, b in zip(chain, chain[1:]):
        ka, kb = uni[a]['kind'], uni[b]['kind']
        opts = ['joint']
        if ka in ('SpurGear', 'HelicalGear', 'WormWheel') and kb in ('SpurGear', 'HelicalGear', 'WormWheel'):
            opts += ['gear', 'gear']
        if {ka, kb} == {'WormGear', 'WormWheel'}:
            opts += ['worm', 'worm', 'worm']
        c = rnd.choice(opts)
        arg = {'isnum': True, 'v': rstr(float(f'{rnd.uniform(0.3, 1) if c == "gear" else rnd.uniform(0, 0.5):.6g}'))}
        if c == 'worm' and rnd.random() < 0.6:
            worm = uni[a] if ka == 'WormGear' else uni[b]            # friction a little below / above this worm's threshold
            thr = math.cos(float(Fraction(worm['alpha']))) * math.tan(2 * math.atan(float(Fraction(worm['th']))))
            f = thr * (1 + rnd.choice([-1, -1, 1]) * rnd.choice([1e-6, 1e-4, 1e-3, 3e-3, 0.01, 0.03]))
            if 0 <= f <= 1:
                arg = {'isnum': True, 'v': rstr(float(f'{f:.9g}'))}
        calls.append({'call': c, 'm': a, 's': b, 'arg': arg})
        if rnd.random() < 0.15:      # re-route: declare another successor, then the intended one again
            other = rnd.choice(keys)
            calls.insert(len(calls) - 1, {'call': 'joint', 'm': a, 's': other, 'arg': {'isnum': False, 'v': '0'}})
    calls.append({'call': 'assemble', 'm': 'M', 's': 'M', 'arg': {'isnum': False, 'v': '0'}})
    if rnd.random() < 0.5:
        calls += random_calls(rnd, uni, 2)
        calls.append({'call': 'assemble', 'm': 'M', 's': 'M', 'arg': {'isnum': False, 'v': '0'}})
    return calls


# ------------------------------------------------------------------ check entry points
def _campaign(tier, seed):
    """shared by C10 and C20: returns (traces, tlc_results, counters)"""
    rnd = random.Random(seed)
    uni = universe_from_spec()
    traces, tlcs = [], []
    # spec -> code: every single call over the full universe (exhaustive), then deeper sequences
    r1, b1 = tlc_behaviours('MC_Relations_d1.cfg')
    tlcs.append(('MC_Relations depth 1, full universe (exhaustive)', r1))
    seqs = [calls_of(b) for b in b1]
    if tier != 'quick':
        r2, b2 = tlc_behaviours('MC_Relations_d2.cfg', workers='auto')
        tlcs.append(('MC_Relations depth 2, core universe (exhaustive)', r2))
        seqs += [calls_of(b) for b in b2]
    for i, calls in enumerate(seqs):
        traces.append(execute(f'rp{i}', uni, calls))
    # deeper sequences over the same exact universe (TLC's random simulation computes every successor of every state
    # - about 0.7 s per behaviour here - so the sequences are drawn by the harness and *validated* by TLC)
    args = {'gear': ['-1/10', '0', '9/10', '1', '11/10', None], 'worm': ['-1/10', '0', '1/20', '2/5', '19/20', '11/10', None]}
    keys = list(uni)
    for i in range(600 if tier == 'quick' else 12000):
        calls = []
        for _ in range(rnd.randint(2, 8)):
            if calls and rnd.random() < 0.15:
                calls.append(dict(rnd.choice(calls)))      # an earlier call issued again
                continue
            c = rnd.choice(['gear', 'worm', 'joint', 'joint', 'assemble'])
            m, s = rnd.choice(keys), rnd.choice(keys)
            if c == 'assemble':
                m = s = rnd.choice(['M', 'M', rnd.choice(keys)])
            a = rnd.choice(args.get(c, [None]))
            calls.append({'call': c, 'm': m, 's': s, 'arg': {'isnum': a is not None, 'v': a or '0'}})
        traces.append(execute(f'rq{i}', uni, calls))
    # crafted sequences over the same universe: chains with SEVERAL worm matings whose flags differ, in both orders; re-routing
    J = lambda m, s: {'call': 'joint', 'm': m, 's': s, 'arg': {'isnum': False, 'v': '0'}}
    W = lambda m, s, f: {'call': 'worm', 'm': m, 's': s, 'arg': {'isnum': True, 'v': f}}
    G = lambda m, s, e: {'call': 'gear', 'm': m, 's': s, 'arg': {'isnum': True, 'v': e}}
    A = lambda m='M': {'call': 'assemble', 'm': m, 's': m, 'arg': {'isnum': False, 'v': '0'}}
    crafted = [
        [J('M', 'W'), W('W', 'Wh', '2/5'), W('Wh', 'W2', '1/20'), A()],            # self-locking stage first, free stage last
        [J('M', 'W2'), W('W2', 'Wh', '1/20'), W('Wh', 'W', '1/20'), A()],           # no self-locking stage at all
        [J('M', 'W2'), W('W2', 'Wh', '1/20'), J('Wh', 'W'), A(), W('W', 'Wh2', '2/5'), A()],   # flag appears only after the first assembly
        [J('M', 'W'), W('W', 'Wh', '2/5'), J('Wh', 'S1'), G('S1', 'S2', '9/10'), J('S2', 'W2'), A()],   # last worm gear never mated (flag unset)
        [J('M', 'S1'), G('S1', 'S2', '1'), J('M', 'H1'), G('H1', 'H2', '1/2'), A(), J('M', 'S1'), A()],   # re-routed before and after assembling
        [J('M', 'S2'), J('S2', 'S3'), A()],                                             # duplicate names S2 / S3
        [J('M', 'W'), W('W', 'Wh', '2/5'), J('Wh', 'S2'), J('S2', 'S3'), A()],          # ... downstream of a self-locking worm
        [J('M', 'W2'), W('W2', 'Wh', '1/20'), J('Wh', 'S3'), J('S3', 'S2'), A()],        # ... downstream of a free worm
        [J('M', 'S2'), J('S2', 'W'), W('W', 'Wh', '2/5'), J('Wh', 'S3'), A()],          # ... on both sides of a self-locking worm
        [J('M', 'F'), J('F', 'S1'), J('S1', 'F'), A('F'), A('S1')],                     # cycle not through the motor; non-motor starts
        # the same worm mated again: the self-locking flag must follow the LAST accepted declaration, whichever side drives
        [W('W', 'Wh', '2/5'), W('Wh', 'W', '1/20')], [W('Wh', 'W', '1/20'), W('W', 'Wh', '2/5')],
        [W('Wh', 'W3', '1/20'), W('Wh', 'W3', '0')], [W('Wh', 'W3', '0'), W('Wh', 'W3', '1/20')],
        [W('W3', 'Wh', '0'), W('Wh', 'W3', '1/20'), W('W3', 'Wh', '1/40')],
        [J('M', 'Wh'), W('Wh', 'W3', '1/20'), A(), W('Wh', 'W3', '0'), A()],
        [W('W', 'Wh', '2/5'), W('W', 'Wh', '11/10'), W('W', 'Wh', '1/20')],             # rejected re-declaration in between
        [G('S1', 'S2', '9/10'), J('S1', 'S2'), G('S1', 'S2', '1'), J('F', 'S2')],       # mating, joint, mating again, another driver
    ]
    # route away and BACK: a master's outgoing relation is declared, replaced by another one, and then declared again exactly as it
    # was (the last declaration per master decides where the chain goes), for every kind of first / intermediate relation
    first = {'joint': [('M', 'F'), ('F', 'S1'), ('S1', 'S4'), ('M', 'W')], 'gear': [('S1', 'S2'), ('H1', 'H2')], 'worm': [('W', 'Wh'), ('Wh', 'W')]}
    other = {'M': [J('M', 'S1'), J('M', 'H1')], 'F': [J('F', 'H1'), J('F', 'W2')], 'S1': [G('S1', 'S4', '9/10'), J('S1', 'H3')],
             'H1': [J('H1', 'S4'), G('H1', 'H0', '1')], 'W': [J('W', 'S4'), W('W', 'Wh2', '1/20')], 'Wh': [J('Wh', 'S4'), G('Wh', 'Wh', '1')]}
    mk = {'joint': lambda m, x: J(m, x), 'gear': lambda m, x: G(m, x, '9/10'), 'worm': lambda m, x: W(m, x, '1/20')}
    for kind, pairs in first.items():
        for (m0, b0) in pairs:
            for mid in other.get(m0, []):
                pre = [] if m0 == 'M' else [J('M', m0)] if m0 in ('F', 'S1', 'H1', 'W', 'Wh') else []
                crafted.append(pre + [mk[kind](m0, b0), A(), mid, A(), mk[kind](m0, b0), A()])
    for i, calls in enumerate(crafted):
        traces.append(execute(f'rc{i}', uni, calls))
    n_replay = len(traces)
    # code -> spec: seeded random universes with real-valued parameters in random units
    nrand = 250 if tier == 'quick' else 4000
    for i in range(nrand):
        u = random_universe(rnd)
        if i % 2 == 0:
            calls = random_calls(rnd, u, rnd.randint(2, 9))
        else:
            calls = chain_calls(rnd, u, rnd.randint(2, 12))
        traces.append(execute(f'rv{i}', u, calls, rnd))
    return traces, tlcs, n_replay


def _known_f(case):
    return False


def _run(pid, tier, seed, clause_filter, rule):
    v = Verdict(pid, tier, seed)
    traces, tlcs, n_replay = _campaign(tier, seed)
    for label, r in tlcs:
        v.add_tlc(r, label)
        if r.violated:
            v.violation({'clauses': ['SpecProperty_' + r.violated], 'cex': r.cex[:50]})
    res = validate('Trace_Relations', traces)
    v.states += res.states; v.transitions += res.transitions
    v.traces = len(traces)
    v.evaluations = sum(len(t['steps']) for t in traces)
    byid = {t['id']: t for t in traces}
    other = 0
    for tid, fails in res.fails.items():
        bystep = {}
        for c in fails:
            name, _, idx = c.partition('@')
            bystep.setdefault(int(idx), []).append(name)
        for idx, cl in sorted(bystep.items()):
            mine = [c for c in cl if clause_filter(c)]
            if not mine:
                other += 1
                continue
            t = byid[tid]
            st = t['steps'][idx - 1]
            v.violation({'clauses': mine, 'trace': tid, 'step_index': idx,
                         'calls': [{k: s[k] for k in ('call', 'm', 's', 'arg', 't', 'err')} for s in t['steps'][:idx]],
                         'objs': {k: t['objs'][k] for k in {st['m'], st['s']}}, 'attrs_after': {k: st['attrs'][k] for k in {st['m'], st['s']}}})
    v.distinct = len({json.dumps([[s['call'], s['m'], s['s'], s['arg']] for s in t['steps']] + [t['objs']], sort_keys=True) for t in traces})
    v.rule = rule
    v.extra.update(replayed_tlc_behaviours=n_replay, random_real_valued_traces=len(traces) - n_replay,
                   failing_steps_attributed_to_the_sibling_property=other)
    v.sample({'id': traces[5]['id'], 'steps': [{k: s[k] for k in ('call', 'm', 's', 'arg', 't', 'err')} for s in traces[5]['steps']]})
    big = max(traces, key=lambda t: len(t['steps']))
    v.sample({'id': big['id'], 'objs': big['objs'], 'steps': [{k: s[k] for k in ('call', 'm', 's', 'arg', 't', 'err', 'elements')} for s in big['steps']]})
    v.assumptions = ['when several rejection reasons apply any of their error classes is accepted',
                     'a drives-cycle makes Powertrain() loop forever in the implementation (observation O1): such assemblies are skipped, not judged',
                     'equality of modules / helix / pressure angles and the self-locking threshold are not judged inside the rounding band']
    return finish(v, {})


ASM = ('Assemble', 'Powertrain')


def run_C10(tier, seed):
    return _run('C10', tier, seed, lambda c: not c.startswith(ASM),
                'spec->code: every single declaration call over the 17-object universe of MC_Relations x every argument class (exhaustive), '
                'deeper call sequences enumerated/simulated by TLC, each replayed on fresh real objects; code->spec: seeded random universes '
                '(teeth, modules, helix and pressure angles in random units, real-valued efficiency/friction in and out of range, non-numbers) with random '
                'call sequences incl. failing ones; after EVERY call all objects\' public relation attributes are re-read and TLC validates them against Relations.tla')


def run_C20(tier, seed):
    return _run('C20', tier, seed, lambda c: c.startswith(ASM),
                'the same campaigns as C10 with Powertrain assembly possible at any point: elements must be exactly the drives-chain from the motor in order, '
                'each once; ValueError when the motor drives nothing, NameError on duplicate names, TypeError for a non-motor; self-locking flag; assemblies on chains of '
                '2..12 elements incl. re-routed ones; every earlier powertrain re-read after every later call (immutability) and assignment attempts must raise')
