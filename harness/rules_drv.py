"""C15 boundary grid: real rule objects placed exactly on / beside each window boundary; Trace_Rules.tla decides."""
from __future__ import annotations
from fractions import Fraction
from .core import import_repo, rstr
from .units_drv import outcome

F = Fraction
N = 'null'


def _pt(eta=F(1, 2), with_current=True, i0=0.25):
    import_repo()
    from gearpy.mechanical_objects import DCMotor, SpurGear
    from gearpy.units import AngularSpeed, Torque, Current, InertiaMoment
    from gearpy.utils import add_fixed_joint, add_gear_mating
    from gearpy.powertrain import Powertrain
    kw = dict(no_load_electric_current=Current(i0, 'A'), maximum_electric_current=Current(2, 'A')) if with_current else {}
    motor = DCMotor('m', InertiaMoment(1, 'kgm^2'), AngularSpeed(16, 'rad/s'), Torque(2, 'Nm'), **kw)
    g1 = SpurGear('g1', 10, InertiaMoment(1, 'kgm^2'))
    g2 = SpurGear('g2', 20, InertiaMoment(1, 'kgm^2'))
    add_fixed_joint(motor, g1)
    add_gear_mating(g1, g2, float(eta))
    g2.external_torque = lambda time, angular_position, angular_speed: Torque(0, 'Nm')
    return Powertrain(motor), motor, g1, g2


def events():
    import_repo()
    from gearpy.motor_control.rules import ConstantPWM, ReachAngularPosition, StartLimitCurrent, StartProportionalToAngularPosition
    from gearpy.sensors import AbsoluteRotaryEncoder, Tachometer, Timer
    from gearpy.units import Time, TimeInterval, AngularPosition, Angle, Torque, AngularSpeed, Current
    evs = []
    n = [0]
    motor_desc0 = {'Tmax': '2', 'w0': '16', 'i0': '1/4', 'imax': '2'}
    motor_desc = motor_desc0
    step = F(1, 8)                      # one grid step; every number below is a dyadic rational: exact in binary

    def add(rule_desc, rule, where, **state):
        n[0] += 1
        r, err = outcome(rule.apply)
        e = {'id': f'rb{n[0]}', 'rule': rule_desc, 'where': where, 'motor': state.pop('motor', motor_desc0), 't': '0', 'theta': '0', 'spd': '0',
             'TlMotor': N, 'TlRef': '0', 'effProd': '1/2',
             'out': {'ret': N if (r is None or err) else rstr(float(r) if not isinstance(r, int) else r), 'raised': err or ''}}
        e.update({k: rstr(v) if not isinstance(v, str) else v for k, v in state.items()})
        evs.append(e)

    base = {'type': '', 'start': '0', 'dur': '0', 'val': '0', 'el': 1, 'el_tach': 1, 'target': '0', 'brake': '0', 'mult': '0', 'pmin': N, 'ilim': '0', 'script': []}
    # ---- ConstantPWM: window [start, start + dur], inclusive at both ends
    for start, dur in ((F(1), F(2)), (F(0), F(1, 2)), (F(-1), F(3, 2))):
        for val in (F(1, 2), F(-1), F(0)):
            for where, t in (('before', start - step), ('on_start', start), ('inside', start + dur / 2), ('on_end', start + dur), ('after', start + dur + step)):
                pt, motor, g1, g2 = _pt()
                pt.update_time(Time(float(t), 'sec'))
                rule = ConstantPWM(Timer(Time(float(start), 'sec'), TimeInterval(float(dur), 'sec')), pt, float(val) if val.denominator != 1 else int(val))
                add(dict(base, type='const', start=rstr(start), dur=rstr(dur), val=rstr(val)), rule, where, t=t)
    # ---- ReachAngularPosition: applies once theta >= target - brake + static error
    for load in (None, F(1, 2), F(-1, 4)):           # motor load torque: static error = Tl / Tmax / effProd * brake
        for target, brake in ((F(10), F(2)), (F(-3), F(1))):
            static = F(0) if load is None else load / 2 / F(1, 2) * brake
            ts = target - brake + static
            for where, th in (('before', ts - step), ('on_start', ts), ('inside', ts + brake / 2), ('at_target', ts + brake), ('beyond', ts + brake + step)):
                pt, motor, g1, g2 = _pt()
                pt.update_time(Time(0, 'sec'))
                g2.angular_position = AngularPosition(float(th), 'rad')
                if load is not None:
                    motor.load_torque = Torque(float(load), 'Nm')
                rule = ReachAngularPosition(AbsoluteRotaryEncoder(g2), pt, AngularPosition(float(target), 'rad'), Angle(float(brake), 'rad'))
                add(dict(base, type='reach', el=3, target=rstr(target), brake=rstr(brake)), rule, where, theta=th,
                    TlMotor=N if load is None else rstr(load))
    # ---- StartProportionalToAngularPosition: applies while theta <= target
    # (with a no-load current of exactly 0 and no load the candidate minimum duty cycle is 0: the pmin parameter is used AS IS)
    for load, pmin, i0 in ((F(1, 2), None, F(1, 4)), (F(0), F(1, 4), F(1, 4)), (F(0), None, F(1, 4)), (F(0), F(1, 4), F(0)), (F(0), None, F(0)), (F(1, 2), F(1, 4), F(0))):
        target = F(4)
        for where, th in (('inside', F(1)), ('on_target', target), ('beyond', target + step), ('at_zero', F(0))):
            pt, motor, g1, g2 = _pt(i0=float(i0))
            motor_desc = dict(motor_desc0, i0=rstr(i0))
            pt.update_time(Time(0, 'sec'))
            g2.angular_position = AngularPosition(float(th), 'rad')
            motor.load_torque = Torque(float(load), 'Nm')
            rule = StartProportionalToAngularPosition(AbsoluteRotaryEncoder(g2), pt, AngularPosition(float(target), 'rad'), 2, None if pmin is None else float(pmin))
            add(dict(base, type='startprop', el=3, target=rstr(target), mult='2', pmin=N if pmin is None else rstr(pmin)), rule, where, theta=th, TlRef=rstr(load), motor=motor_desc)
    # ---- StartLimitCurrent: applies while theta <= target; value through its quadratic
    for where, th in (('inside', F(1)), ('on_target', F(4)), ('beyond', F(4) + step)):
        for spd in (F(0), F(4), F(-8), F(20)):
            pt, motor, g1, g2 = _pt()
            pt.update_time(Time(0, 'sec'))
            g2.angular_position = AngularPosition(float(th), 'rad')
            motor.angular_speed = AngularSpeed(float(spd), 'rad/s')
            rule = StartLimitCurrent(AbsoluteRotaryEncoder(g2), Tachometer(motor), motor, AngularPosition(4, 'rad'), Current(1.5, 'A'))
            add(dict(base, type='startlim', el=3, el_tach=1, target='4', ilim='3/2'), rule, where, theta=th, spd=spd)
    return evs
