----------------------------- MODULE MC_Control -----------------------------
EXTENDS Control
Vals == {CNull, "-7", "-1", "-1/3", "0", "1/2", "1", "5", "1000"}
ASSUME ArbLemmas(Vals)
\* timer window is inclusive at both ends
ASSUME TimerActive("1", "1", "2") /\ TimerActive("3", "1", "2") /\ ~TimerActive("3001/1000", "1", "2") /\ ~TimerActive("999/1000", "1", "2")
\* StartLimitCurrent: with an exact root D (rational discriminant) the motor's own current law gives exactly the limit
Mot == [Tmax |-> "2", w0 |-> "16", i0 |-> "1/5", imax |-> "2"]
\* s = 1/2, e = 3/5: disc = (11/10)^2 - 4*(1/2)*(1/10) = 1.21 - 0.2 = 1.01 (irrational root); choose e so the root is rational:
\* D = 3/4, s = 1/2  =>  e = D + s*i0/(imax*D) - s = 3/4 + (1/20)/(3/4) - 1/2 = 19/60
ASSUME SLCResidual("3/4", "1/2", "19/60", Mot) = "0"
ASSUME SLCIsValue("3/4", "1/2", "19/60", Mot, "0")
ASSUME Current(Mot, RMul("1/2", Mot.w0), "3/4") = RMul("19/60", Mot.imax)      \* current law at (w = s*w0, D) = limit current
ASSUME ReachAngularPosition([target |-> "10", brake |-> "2"], "9", "0", "2", "1") = "1/2"
ASSUME ReachAngularPosition([target |-> "10", brake |-> "2"], "8", "0", "2", "1") = "1"
ASSUME ReachAngularPosition([target |-> "10", brake |-> "2"], "799/100", "0", "2", "1") = CNull
ASSUME \A s \in {"-1/2", "0", "1/40", "1/2", "9/10", "3/2"}, D \in {"1/10", "1/5", "1/2", "3/4", "1"},
         m \in {Mot, [Tmax |-> "1/100", w0 |-> "500", i0 |-> "0", imax |-> "9/50"], [Tmax |-> "1/2", w0 |-> "209", i0 |-> "9/1000", imax |-> "9/50"]} :
         SLCLemma(m, s, D)
ASSUME PrintT("MC_Control: lemmas hold")
=============================================================================
