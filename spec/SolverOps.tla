----------------------------- MODULE SolverOps -----------------------------
(***************************************************************************)
(* The relations one instant of a simulation must satisfy (C01, C02, C03,  *)
(* C13, C14, C17 and the in-simulation part of C09, C15, C16), over exact  *)
(* rationals, shared by the design model (Solver.tla, eps = 0) and by the  *)
(* trace specification (Trace_Solver.tla, eps = 1e-9 against floats).      *)
(*                                                                         *)
(* ch : the chain, a sequence of element records (static data; ch[1] is    *)
(*      the motor).  An element carries its *declared* relation to its     *)
(*      driver: rtype \in {"joint","gear","worm"}, arg (efficiency or      *)
(*      friction coefficient); ratios and efficiencies are RECOMPUTED here *)
(*      from teeth / starts / friction, never read from the element.       *)
(* An instant is [t, pwm, cur, el], el[i] = [pos, spd, acc, T, Td, Tl,     *)
(*      ft, sb, sc] ("null" where the element does not record it).         *)
(***************************************************************************)
EXTENDS Gear, Relations, Control

SNull == "null"
N(ch) == Len(ch)

(* ---- ratios, efficiencies, equivalent inertia from the declared relations ---- *)
\* (rtype = "attr": a powertrain built by somebody else - the repository's own tests - whose declarations were not
\*  observed; the relation attributes the element shows are used as they are)
Ratio(ch, i) ==
  CASE ch[i].rtype = "attr" -> RNorm(ch[i].ratioAttr)
    [] ch[i].rtype = "joint" -> "1"
    [] ch[i].rtype = "gear"  -> RDiv(RFromInt(ch[i].teeth), RFromInt(ch[i - 1].teeth))
    [] ch[i].rtype = "worm"  -> RDiv(RFromInt(ch[i].teeth), RFromInt(ch[i - 1].teeth))   \* teeth = starts for a worm
Eff(ch, i) ==
  CASE ch[i].rtype = "attr" -> RNorm(ch[i].effAttr)
    [] ch[i].rtype = "joint" -> "1"
    [] ch[i].rtype = "gear"  -> RNorm(ch[i].arg)
    [] ch[i].rtype = "worm"  ->
         LET cosA == WormRow(ch[i - 1].alpha).cos   tanB == TanOf(ch[i - 1].th) IN
         IF ch[i - 1].kind = "WormGear" THEN WormEffWormDrives(cosA, tanB, ch[i].arg)
         ELSE WormEffWheelDrives(cosA, tanB, ch[i].arg)
\* is the worm of the worm mating declared at position i flagged self-locking?  ("band" = not judged)
WormSL(ch, i) ==
  LET w == IF ch[i].kind = "WormGear" THEN ch[i] ELSE ch[i - 1]
      thr == RMul(WormRow(w.alpha).cos, TanOf(w.th)) IN
  IF Near(ch[i].arg, thr) THEN "band" ELSE IF RGt(ch[i].arg, thr) THEN "true" ELSE "false"
SelfLockingClass(ch) ==
  LET S == { WormSL(ch, i) : i \in { i \in 2..N(ch) : ch[i].rtype = "worm" } } IN
  IF "true" \in S THEN "true" ELSE IF "band" \in S THEN "band" ELSE "false"

RECURSIVE JeqUpTo(_, _)
\* documented reduction: start from the motor inertia; moving downstream multiply by the ratio and add the inertia
JeqUpTo(ch, i) == IF i = 1 THEN ch[1].J ELSE RAdd(RMul(JeqUpTo(ch, i - 1), Ratio(ch, i)), ch[i].J)
Jeq(ch) == JeqUpTo(ch, N(ch))

\* product of the ratios downstream of element i  (value at element i = product * value at the last element)
RECURSIVE RatioProd(_, _)
RatioProd(ch, i) == IF i = N(ch) THEN "1" ELSE RMul(Ratio(ch, i + 1), RatioProd(ch, i + 1))

(* ---- the user's load function (harness-owned parametric family) ---- *)
LoadFn(ld, t, th, w) == RAdd(RAdd(RAdd(RAdd(ld.c0, RMul(ld.c1, w)), RMul(ld.c2, th)), RMul(ld.c3, t)),
                             IF RGe(t, ld.ts) THEN ld.cs ELSE "0")
\* the step is a discrete decision (t >= ts): an instant within rounding distance of the step time may be on either side of it
\* (20 ms is exactly 1/50 s, the float 0.02 is not) - trace validation (eps > 0) then accepts both values, the design model (eps = 0) does not
LoadNearStep(ld, t) == RLe(RAbs(RSub(t, ld.ts)), RMul("1e-9", RMax(RAbs(ld.ts), "1e-300")))
LoadFnOtherSide(ld, t, th, w) == RAdd(RAdd(RAdd(RAdd(ld.c0, RMul(ld.c1, w)), RMul(ld.c2, th)), RMul(ld.c3, t)),
                                      IF RGe(t, ld.ts) THEN "0" ELSE ld.cs)
LoadScale(ld, t, th, w) == RAdd(RAdd(RAdd(RAdd(RAbs(ld.c0), RAbs(RMul(ld.c1, w))), RAbs(RMul(ld.c2, th))), RAbs(RMul(ld.c3, t))), RAbs(ld.cs))

\* (Tiny: absolute slack for values at the bottom of the double range, where products lose their relative precision;
\*  it is exactly 0 in the design model, whose arithmetic is exact)
TinyOf(eps) == IF RSign(eps) = 0 THEN "0" ELSE "1e-300"
Cl(z, f, eps, scale) == RLe(RAbs(RSub(z, f)), RAdd(RMul(eps, scale), TinyOf(eps)))
ClR(z, f, eps) == RLe(RAbs(RSub(z, f)), RAdd(RMul(eps, RMax(RAbs(z), RAbs(f))), TinyOf(eps)))

MotorOf(ch) == [Tmax |-> ch[1].Tmax, w0 |-> ch[1].w0, i0 |-> ch[1].i0, imax |-> ch[1].imax]

(* ---- C01: kinematic coupling at one instant ---- *)
CoupledFails(ch, X, eps) ==
  UNION { LET r == Ratio(ch, i + 1)  a == X.el[i]  b == X.el[i + 1]  tag == ToString(i) IN
          { c[1] : c \in { c \in {
             <<"CoupledPos@" \o tag, ClR(a.pos, RMul(r, b.pos), eps)>>,
             <<"CoupledSpd@" \o tag, ClR(a.spd, RMul(r, b.spd), eps)>>,
             <<"CoupledAcc@" \o tag, ClR(a.acc, RMul(r, b.acc), eps)>> } : ~c[2] } }
        : i \in 1..(N(ch) - 1) }

(* ---- C02: torque propagation and balance at one instant ---- *)
TorqueFails(ch, ld, X, eps) ==
  LET n == N(ch)  m == MotorOf(ch) IN
  { c[1] : c \in { c \in
     { <<"DriveMotor", Cl(X.el[1].Td, Torque(m, X.el[1].spd, X.pwm), eps, TorqueScale(m, X.el[1].spd, X.pwm))>>,
       <<"LoadFunction", \/ Cl(X.el[n].Tl, LoadFn(ld, X.t, X.el[n].pos, X.el[n].spd), eps, LoadScale(ld, X.t, X.el[n].pos, X.el[n].spd))
                         \/ (eps # "0" /\ LoadNearStep(ld, X.t)
                             /\ Cl(X.el[n].Tl, LoadFnOtherSide(ld, X.t, X.el[n].pos, X.el[n].spd), eps, LoadScale(ld, X.t, X.el[n].pos, X.el[n].spd)))>> }
     \cup { <<"DriveDown@" \o ToString(i), ClR(X.el[i].Td, RMul(RMul(X.el[i - 1].Td, Eff(ch, i)), Ratio(ch, i)), eps)>> : i \in 2..n }
     \cup { <<"LoadUp@" \o ToString(i), RSign(Eff(ch, i + 1)) = 0 \/
                  ClR(X.el[i].Tl, RDiv(RDiv(X.el[i + 1].Tl, Eff(ch, i + 1)), Ratio(ch, i + 1)), eps)>> : i \in 1..(n - 1) }
     \cup { <<"NetTorque@" \o ToString(i), Cl(X.el[i].T, RSub(X.el[i].Td, X.el[i].Tl), eps, RAdd(RAbs(X.el[i].Td), RAbs(X.el[i].Tl)))>> : i \in 1..n }
    : ~c[2] } }

(* ---- C03 / C13: dynamics at one instant given whether the powertrain is held ---- *)
DynFails(ch, X, lk, eps) ==
  LET n == N(ch) IN
  IF lk THEN { c[1] : c \in { c \in
        { <<"HeldSpeedZero@" \o ToString(i), RSign(X.el[i].spd) = 0>> : i \in 1..n }
        \cup { <<"HeldAccZero@" \o ToString(i), RSign(X.el[i].acc) = 0>> : i \in 1..n } : ~c[2] } }
  ELSE { c[1] : c \in { c \in { <<"AccFromNetTorque", ClR(X.el[n].acc, RDiv(X.el[n].T, Jeq(ch)), eps)>> } : ~c[2] } }

\* advanced speed of the last element from the previous instant P over the step dt
AdvSpd(ch, P, dt) == RAdd(P.el[N(ch)].spd, RMul(P.el[N(ch)].acc, dt))
AdvScale(ch, P, dt) == RAdd(RAbs(P.el[N(ch)].spd), RAbs(RMul(P.el[N(ch)].acc, dt)))
\* C03: time-step update (speed first, then position with the ADVANCED speed); clamped to zero iff held
StepFails(ch, P, X, dt, lk, eps) ==
  LET n == N(ch)  w == AdvSpd(ch, P, dt) IN
  { c[1] : c \in { c \in {
      <<"IntegratePos", Cl(X.el[n].pos, RAdd(P.el[n].pos, RMul(w, dt)), eps, RAdd(RAbs(P.el[n].pos), RAbs(RMul(w, dt))))>>,
      <<"IntegrateSpd", lk \/ Cl(X.el[n].spd, w, eps, AdvScale(ch, P, dt))>>,
      <<"HeldPosConstant", (lk /\ RSign(P.el[n].spd) = 0 /\ RSign(P.el[n].acc) = 0) => X.el[n].pos = P.el[n].pos>> } : ~c[2] } }

(* ---- C13: the lock decision ---- *)
\* pwmF : duty cycle in force (the one the decision reads), tqF : motor net torque the decision reads ("null" if none),
\* w : motor speed after back-propagation and BEFORE clamping, wscale : its condition scale
LockBranch(sl, lockedPrev, pwmF, tqF, against) ==
  IF sl /\ (RSign(pwmF) = 0 \/ against) THEN TRUE
  ELSE IF tqF # SNull /\ RSign(tqF) # 0 /\ RSign(tqF) = RSign(pwmF) THEN FALSE
  ELSE lockedPrev
SpeedFloor == "1e-299"
LockSet(sl, lockedPrev, pwmF, tqF, w, wscale, band) ==
  LET against == (RSign(pwmF) > 0 /\ RSign(w) < 0) \/ (RSign(pwmF) < 0 /\ RSign(w) > 0)
      \* within rounding distance of zero: relative to the condition scale, or below the absolute floor under which the
      \* quantity comparisons of the implementation call two values equal (1e-300 in the operand's own unit, at most 1e-299
      \* in SI for every angular-speed unit); not used when traces are judged AT their thresholds (band < 0)
      unsure == RSign(pwmF) # 0 /\ ( (RLe(RAbs(w), RMul(band, wscale)) /\ RSign(wscale) > 0)
                                      \/ (RSign(band) > 0 /\ RSign(w) # 0 /\ RLe(RAbs(w), SpeedFloor)) ) IN
  IF unsure THEN {LockBranch(sl, lockedPrev, pwmF, tqF, TRUE), LockBranch(sl, lockedPrev, pwmF, tqF, FALSE)}
  ELSE {LockBranch(sl, lockedPrev, pwmF, tqF, against)}
\* the property as stated: recorded motor speed never has the sign opposite to the duty cycle in force
SignSafe(pwmF, spdMotor) == /\ (RSign(pwmF) = 0 => RSign(spdMotor) = 0)
                            /\ (RSign(pwmF) > 0 => RSign(spdMotor) >= 0)
                            /\ (RSign(pwmF) < 0 => RSign(spdMotor) <= 0)

(* ---- C09 in simulation: recorded force / stresses of element i at one instant ---- *)
GearRec(e) == [cls |-> e.kind, teeth |-> e.teeth, module |-> e.module, b |-> e.b, E |-> e.E, th |-> e.th,
               alpha |-> e.alpha, dref |-> e.dref, role |-> e.role]
\* the element it meshes with (its follower if it is a master, its driver if a slave)
MateIdx(ch, i) == IF ch[i].role = "master" THEN i + 1 ELSE IF ch[i].role = "slave" THEN i - 1 ELSE i
StressFails(ch, X, eps) ==
  UNION { LET e == ch[i]  g == GearRec(e)  mate == GearRec(ch[MateIdx(ch, i)])  x == X.el[i]  tag == ToString(i) IN
          IF e.kind \notin {"SpurGear", "HelicalGear", "WormWheel", "WormGear"} \/ e.role = "none" THEN {}
          ELSE { c[1] : c \in { c \in {
            <<"ForceValue@" \o tag, (FtFlag(g) /\ x.ft # SNull) => ClR(x.ft, Force(g, x.Tl, x.Td), eps)>>,
            <<"BendingValue@" \o tag, (SbFlag(g, mate) /\ x.sb # SNull /\ x.ft # SNull) => ClR(x.sb, Bending(g, mate, x.ft), eps)>>,
            <<"ContactValue@" \o tag, (SbFlag(g, mate) /\ ScFlag(g) /\ x.sc # SNull /\ x.ft # SNull /\ ~ContactRaises(g, mate)) =>
                                       ClR(RSq(x.sc), Contact2(g, mate, x.ft), RMul("2", eps))>> } : ~c[2] } }
        : i \in 2..N(ch) }

(* ---- C08 in simulation: recorded motor current ---- *)
CurrentFails(ch, X, eps) ==
  LET m == MotorOf(ch) IN
  IF ~ch[1].hasCurrent \/ X.cur = SNull THEN {}
  ELSE LET near == RLe(RAbs(RSub(RAbs(X.pwm), DeadZone(m))), RMul("1e-9", RMax(DeadZone(m), "1e-300"))) IN
       IF near THEN {}
       ELSE { c[1] : c \in { c \in { <<"MotorCurrent",
                Cl(X.cur, CurrentFromTorque(m, X.el[1].Td, X.pwm), eps, CurrentScale(m, X.el[1].spd, X.pwm))>> } : ~c[2] } }

(* ---- C17: what must be recorded ---- *)
VarKeys == [a |-> "angular_position"]   \* (documentation only: keys are the variable names with '_' for ' ')
RecordedKeys(ch, i) ==
  LET e == ch[i]
      g == IF e.kind \in {"SpurGear", "HelicalGear", "WormWheel", "WormGear"} THEN GearRec(e) ELSE [cls |-> e.kind, role |-> "none"]
      mate == IF e.kind \in {"SpurGear", "HelicalGear", "WormWheel", "WormGear"} THEN GearRec(ch[MateIdx(ch, i)]) ELSE g IN
  {"angular_position", "angular_speed", "angular_acceleration", "torque", "driving_torque", "load_torque"}
  \cup (IF e.kind = "DCMotor" THEN {"pwm"} \cup (IF e.hasCurrent THEN {"electric_current"} ELSE {}) ELSE {})
  \cup (IF e.kind \in {"SpurGear", "HelicalGear", "WormWheel", "WormGear"} /\ FtFlag(g) THEN {"tangential_force"} ELSE {})
  \cup (IF e.kind \in {"SpurGear", "HelicalGear", "WormWheel"} /\ SbFlag(g, mate) THEN {"bending_stress"} ELSE {})
  \cup (IF e.kind \in {"SpurGear", "HelicalGear", "WormWheel"} /\ SbFlag(g, mate) /\ ScFlag(g) THEN {"contact_stress"} ELSE {})
=============================================================================
