----------------------------- MODULE Trace_Grid -----------------------------
(***************************************************************************)
(* C11 on its own: the time axis recorded by real runs for enumerated      *)
(* decimal time steps dt = m * 10^-e and step counts n (T = n dt computed  *)
(* as a product or written as a decimal literal), in all four time units,  *)
(* fresh and continued.  before / after : the axis (SI) before and after   *)
(* the run; dt, T : what the run was given (SI, exact).                    *)
(***************************************************************************)
EXTENDS TraceLib, Json, IOUtils
Traces == ndJsonDeserialize(IOEnv.TRACE_FILE)
VARIABLE tid
Eps == "1e-9"
\* tolerance for an instant near time t on a grid of step dt: a fraction of the step, plus the floating-point resolution of t
\* itself (a continuation in ms after hours of simulated time cannot place its instants more finely than ulp(t))
Tol(t, dt) == RAdd(RMul(Eps, dt), RMul("1e-14", RAbs(t)))

Fails(e) ==
  LET n == RToInt(RRound(RDiv(e.T, e.dt)))
      fresh == Len(e.before) = 0
      t0 == IF fresh THEN "0" ELSE e.before[Len(e.before)]
      first == Len(e.before) + 1
      expLen == Len(e.before) + n + (IF fresh THEN 1 ELSE 0)
      k(j) == IF fresh THEN j - 1 ELSE j - Len(e.before) IN
  IF e.outcome # "ok" THEN {"GridRunRaised_" \o e.outcome}
  ELSE Failing({
    <<"GridPrefixKept", Len(e.after) >= Len(e.before) /\ \A j \in 1..Len(e.before) : e.after[j] = e.before[j]>>,
    <<"GridCount", Len(e.after) = expLen>>,
    <<"GridNotBeyondT", \A j \in first..Len(e.after) :
          RIsNum(e.after[j]) /\ RLe(e.after[j], RAdd(RAdd(t0, e.T), Tol(RAdd(t0, e.T), e.dt)))>>,
    <<"GridInstant", \A j \in first..Len(e.after) :
          RIsNum(e.after[j]) /\ RLe(RAbs(RSub(e.after[j], RAdd(t0, RMul(RFromInt(k(j)), e.dt)))), Tol(e.after[j], e.dt))>>,
    <<"GridLastIsT", Len(e.after) >= first =>
          RLe(RAbs(RSub(e.after[Len(e.after)], RAdd(t0, e.T))), Tol(RAdd(t0, e.T), e.dt)) \/ Len(e.after) # expLen>> })

Init == tid \in 1..Len(Traces)
Next == tid > 0 /\ Verdict(Traces[tid].id, Fails(Traces[tid])) /\ tid' = 0
=============================================================================
