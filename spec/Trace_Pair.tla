----------------------------- MODULE Trace_Pair -----------------------------
(***************************************************************************)
(* Two recorded executions that a property says must agree (C12: split vs  *)
(* single run - "close"; reset + rerun - "exact"; C07: the same model with *)
(* every input re-expressed in other units - "close").  A and B are        *)
(* histories [time, hist] as recorded (SI, exact binary values).           *)
(*                                                                         *)
(* close : same number of instants, same variables, and every series       *)
(*         agrees within Tol x (largest magnitude in that series) - the    *)
(*         scale is the series, not the sample, so a zero crossing is not  *)
(*         a false alarm; exact : every sample identical.                  *)
(***************************************************************************)
EXTENDS TraceLib, Json, IOUtils
Traces == ndJsonDeserialize(IOEnv.TRACE_FILE)
VARIABLE tid
Tol == "1e-6"

RECURSIVE MaxAbs(_, _)
MaxAbs(s, i) == IF i = 0 THEN "0" ELSE RMax(RAbs(s[i]), MaxAbs(s, i - 1))
AllNum(s) == \A i \in 1..Len(s) : RIsNum(s[i])

SeriesOK(a, b, mode) ==
  /\ Len(a) = Len(b)
  /\ IF mode = "exact" THEN \A i \in 1..Len(a) : a[i] = b[i] \/ (RIsNum(a[i]) /\ RIsNum(b[i]) /\ REq(a[i], b[i]))
     ELSE /\ AllNum(a) /\ AllNum(b)
          /\ LET m == RMax(MaxAbs(a, Len(a)), MaxAbs(b, Len(b))) IN
             \A i \in 1..Len(a) : RLe(RAbs(RSub(a[i], b[i])), RMul(Tol, m))

\* the time axis is compared against its own span (it is a grid, never all zero beyond the first instant)
Fails(e) ==
  LET A == e.A  B == e.B IN
  Failing({ <<"PairOutcomes", e.outA = e.outB>>,
            <<"PairInstantCount", Len(A.time) = Len(B.time)>>,
            <<"PairElementCount", Len(A.hist) = Len(B.hist)>> })
  \cup (IF Len(A.time) # Len(B.time) \/ Len(A.hist) # Len(B.hist) THEN {}
        ELSE Failing({ <<"PairTimeAxis", SeriesOK(A.time, B.time, e.mode)>> })
             \cup UNION { IF DOMAIN A.hist[i] # DOMAIN B.hist[i] THEN {"PairVariables@" \o ToString(i)}
                          ELSE { "PairSeries_" \o f \o "@" \o ToString(i) :
                                 f \in { f \in DOMAIN A.hist[i] : ~SeriesOK(A.hist[i][f], B.hist[i][f], e.mode) } }
                        : i \in 1..Len(A.hist) })

Init == tid \in 1..Len(Traces)
Next == tid > 0 /\ Verdict(Traces[tid].id, Fails(Traces[tid])) /\ tid' = 0
=============================================================================
