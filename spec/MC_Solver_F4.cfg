SPECIFICATION Spec
CONSTANTS
  Instances <- TinyInstances
  MaxInstants = 3
  MaxEpochs = 2
  MaxSolvers = 2
  RunLengths <- RunLens
  UserPwms <- NoUser
  UserStates <- NoUser
INVARIANT C12_Unguarded
CHECK_DEADLOCK FALSE
