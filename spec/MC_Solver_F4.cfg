SPECIFICATION Spec
CONSTANTS
  Instances <- TinyInstances
  MaxInstants = 3
  MaxEpochs = 2
  MaxSolvers = 2
  RunLengths <- RunLens
INVARIANT C12_Unguarded
CHECK_DEADLOCK FALSE
