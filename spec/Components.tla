----------------------------- MODULE Components -----------------------------
(***************************************************************************)
(* Documented parameter constraints of the component constructors and the  *)
(* tabulated gear data (written from the documentation and the two data    *)
(* tables shipped with the library).  All magnitudes are SI rationals;     *)
(* "null" marks an optional parameter that was not given.                  *)
(***************************************************************************)
EXTENDS Units

Null == "null"
Has(x) == x # Null

MinTeeth == 10

\* worm gear / wheel data: pressure angle (deg) |-> maximum helix angle (deg), Lewis factor
\* cos of the pressure angle to 50 digits (cos 30 deg = sqrt(3)/2)
WormData == [ a145 |-> [alpha |-> "14.5", maxHelix |-> "16", lewis |-> "0.1",   cos |-> "0.96814764037810777496671529862958687642953818240952"],
              a20  |-> [alpha |-> "20",   maxHelix |-> "25", lewis |-> "0.125", cos |-> "0.93969262078590838405410927732473146993620813426446"],
              a25  |-> [alpha |-> "25",   maxHelix |-> "35", lewis |-> "0.15",  cos |-> "0.90630778703664996324255265675431698326771262517586"],
              a30  |-> [alpha |-> "30",   maxHelix |-> "45", lewis |-> "0.175", cos |-> "0.86602540378443864676372317075293618347140262690519"] ]
WormRows == { WormData[k] : k \in DOMAIN WormData }
Deg(r) == Conv(r, "Angle", "rad", "deg")          \* radians -> degrees
Rad(d) == Conv(d, "Angle", "deg", "rad")

Band == "1e-9"     \* relative band around a threshold inside which a discrete decision is not judged
Near(x, y) == RLe(RAbs(RSub(x, y)), RMul(Band, RMax(RAbs(x), RAbs(y))))

\* the row whose pressure angle matches alphaRad (up to rounding), or Null
WormRowSet(alphaRad) == { r \in WormRows : Near(Deg(alphaRad), r.alpha) }
WormRow(alphaRad) == CHOOSE r \in WormRowSet(alphaRad) : TRUE

OK == {"ok"}
VE == {"ValueError"}
Either == {"ok", "ValueError"}
\* outcome set for "reject iff x > limit" with an unjudged band at the limit
RejectIfGt(x, limit) == IF Near(x, limit) THEN Either ELSE IF RGt(x, limit) THEN VE ELSE OK
RejectIfGe(x, limit) == RejectIfGt(x, limit)
\* conjunction of independent constraints: rejected if any rejects; accepted only if all accept
Combine(S) == IF \E s \in S : s = VE THEN VE
              ELSE IF \A s \in S : s = OK THEN OK ELSE Either

MotorCtor(c) == Combine({
   IF RSign(c.w0) <= 0 THEN VE ELSE OK,
   IF RSign(c.Tmax) <= 0 THEN VE ELSE OK,
   IF Has(c.i0) /\ RSign(c.i0) < 0 THEN VE ELSE OK,            \* a null no-load current is accepted (documented "positive or null")
   IF Has(c.imax) /\ RSign(c.imax) <= 0 THEN VE ELSE OK,
   IF Has(c.i0) /\ Has(c.imax) THEN RejectIfGe(c.i0, c.imax) ELSE OK })

GearCtor(c) == Combine({
   IF c.teeth < MinTeeth THEN VE ELSE OK,
   IF Has(c.E) /\ RSign(c.E) <= 0 THEN VE ELSE OK })

HelicalCtor(c) == Combine({ GearCtor(c), RejectIfGe(Deg(c.helix), "90") })

WormCommon(c) == IF WormRowSet(c.alpha) = {} THEN VE
                 ELSE RejectIfGt(Deg(c.helix), WormRow(c.alpha).maxHelix)

WormGearCtor(c) == Combine({ IF c.starts < 1 THEN VE ELSE OK, WormCommon(c) })
WormWheelCtor(c) == Combine({ IF c.teeth < MinTeeth THEN VE ELSE OK, RejectIfGe(Deg(c.helix), "90"), WormCommon(c) })

PwmSet(c) == IF RGt(RAbs(c.v), "1") THEN VE ELSE OK

CtorAllowed(c) == CASE c.cls = "DCMotor" -> MotorCtor(c)
                    [] c.cls = "SpurGear" -> GearCtor(c)
                    [] c.cls = "HelicalGear" -> HelicalCtor(c)
                    [] c.cls = "WormGear" -> WormGearCtor(c)
                    [] c.cls = "WormWheel" -> WormWheelCtor(c)
                    [] c.cls = "pwm" -> PwmSet(c)
=============================================================================
