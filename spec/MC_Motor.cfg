
