--------------------------- MODULE Trace_Snapshot ---------------------------
(* Code -> spec validation for C18: recorded snapshot tables and exported CSV files of real simulated powertrains. *)
EXTENDS Snapshot, TraceLib, Json, IOUtils
Traces == ndJsonDeserialize(IOEnv.TRACE_FILE)
VARIABLE tid
Eps == "1e-9"

IsNan(x) == x = "nan"
\* snapshot event: time, hist, names, t (SI), sel (list of variables or <<>>), units, out = [ok, err, columns, rows]
SnapFails(e) ==
  IF ~e.out.ok THEN {"SnapshotRaised_" \o e.out.err}
  ELSE LET req == Requested(e.hist, e.sel)
           cols == { e.out.columns[x] : x \in 1..Len(e.out.columns) } IN
  Failing({ <<"SnapColumnsExactlyRequested", cols = ExpectedColumns(e.hist, e.sel, e.units)>>,
            <<"SnapNoDuplicateColumns", Cardinality(cols) = Len(e.out.columns)>> })
  \cup UNION { UNION {
        LET lab == Label(e.units, v)
            row == IF e.names[i] \in DOMAIN e.out.rows THEN e.out.rows[e.names[i]] ELSE [x \in {} |-> "nan"]
            cell == IF lab \in DOMAIN row THEN row[lab] ELSE "nan" IN
        IF Records(e.hist, i, v)
        THEN IF IsNan(cell) THEN {"SnapMissingValue_" \o v}
             ELSE IF ~RIsNum(cell) THEN {"SnapNonFinite_" \o v}
             ELSE LET s == e.hist[i][v]
                      exp == InUnit(e.units, v, Interp(e.time, s, e.t))
                      sc == InUnit(e.units, v, InterpScale(e.time, s, e.t)) IN
                  IF CloseS(cell, exp, Eps, RAbs(sc)) THEN {} ELSE {"SnapValue_" \o v}
        ELSE IF IsNan(cell) THEN {} ELSE {"SnapValueForUnrecordedVariable_" \o v}
      : v \in req } : i \in 1..Len(e.hist) }

\* export event: for element i: csv = [columns, data (column |-> list)], tunit
ExportFails(e) ==
  IF ~e.out.ok THEN {"ExportRaised_" \o e.out.err}
  ELSE UNION {
    LET csv == e.out.files[i]
        recorded == { v \in VarSet : v \in DOMAIN e.hist[i] }
        tlab == "time (" \o e.tunit \o ")"
        expcols == {tlab} \cup { Label(e.units, v) : v \in recorded }
        cols == { csv.columns[x] : x \in 1..Len(csv.columns) } IN
    Failing({ <<"ExportColumns", cols = expcols>>,
              <<"ExportRowsPerInstant", \A c \in cols : Len(csv.data[c]) = Len(e.time)>> })
    \cup (IF cols # expcols \/ \E c \in cols : Len(csv.data[c]) # Len(e.time) THEN {}
          ELSE Failing({ <<"ExportTimeColumn", \A j \in 1..Len(e.time) :
                              RIsNum(csv.data[tlab][j]) /\ CloseS(csv.data[tlab][j], Conv(e.time[j], "Time", "sec", e.tunit), Eps, RAbs(Conv(e.time[j], "Time", "sec", e.tunit)))>> })
               \cup { "ExportValue_" \o v : v \in { v \in recorded :
                        \E j \in 1..Len(e.time) : LET c == csv.data[Label(e.units, v)][j]  x == InUnit(e.units, v, e.hist[i][v][j]) IN
                                                  ~(RIsNum(c) /\ CloseS(c, x, Eps, RAbs(x))) } })
    : i \in 1..Len(e.hist) }


\* plot event: time, hist, names, elsel (1-based indices of the selected elements, powertrain order), sel, units, tunit,
\* out = [ok, err, nrows, ncols, cells = sequence of [row, col, title, lines = sequence of [label, x, y]]]   (row, col 1-based)
PlotFails(e) ==
  IF ~e.out.ok THEN {"PlotRaised_" \o e.out.err}
  ELSE LET rows == PlotRows(PlotRequested(e.hist, e.elsel, e.sel))
           CellsAt(r, c) == { k \in 1..Len(e.out.cells) : e.out.cells[k].row = r /\ e.out.cells[k].col = c }
           LineOk(ln, i, v) ==
             /\ (PlotLabel(v) = "" \/ ln.label = PlotLabel(v))
             /\ Len(ln.x) = Len(e.time) /\ Len(ln.y) = Len(e.time)
             /\ \A j \in 1..Len(e.time) :
                  LET tx == Conv(e.time[j], "Time", "sec", e.tunit)
                      yy == InUnit(e.units, v, e.hist[i][v][j]) IN
                  /\ RIsNum(ln.x[j]) /\ CloseS(ln.x[j], tx, Eps, RAbs(tx))
                  /\ RIsNum(ln.y[j]) /\ CloseS(ln.y[j], yy, Eps, RAbs(yy)) IN
  Failing({ <<"PlotGridShape", e.out.nrows = Len(rows) /\ e.out.ncols = Len(e.elsel)>>,
            <<"PlotOneCellPerPosition", \A r \in 1..Len(rows), c \in 1..Len(e.elsel) : Cardinality(CellsAt(r, c)) = 1>> })
  \cup (IF e.out.nrows # Len(rows) \/ e.out.ncols # Len(e.elsel) \/ \E r \in 1..Len(rows), c \in 1..Len(e.elsel) : Cardinality(CellsAt(r, c)) # 1 THEN {}
        ELSE UNION { UNION {
          LET cell == e.out.cells[CHOOSE k \in CellsAt(r, c) : TRUE]
              i == e.elsel[c]
              exp == { v \in rows[r] : Records(e.hist, i, v) } IN
          Failing({ <<"PlotColumnTitle", r # 1 \/ cell.title = e.names[i]>>,
                    <<"PlotLineCount", Len(cell.lines) = Cardinality(exp)>> })
          \cup { "PlotLine_" \o v : v \in { v \in exp : ~\E k \in 1..Len(cell.lines) : LineOk(cell.lines[k], i, v) } }
          : c \in 1..Len(e.elsel) } : r \in 1..Len(rows) })

Fails(e) == CASE e.ev = "snapshot" -> SnapFails(e) [] e.ev = "export" -> ExportFails(e) [] e.ev = "plot" -> PlotFails(e)
Init == tid \in 1..Len(Traces)
Next == tid > 0 /\ Verdict(Traces[tid].id, Fails(Traces[tid])) /\ tid' = 0
=============================================================================
