--------------------------- MODULE Trace_Snapshot ---------------------------
(* Code -> spec validation for C18: recorded snapshot tables and exported CSV files of real simulated powertrains. *)
EXTENDS Snapshot, TraceLib, Json, IOUtils
Traces == ndJsonDeserialize(IOEnv.TRACE_FILE)
VARIABLE tid
Eps == "1e-9"

IsNan(x) == x = "nan"
\* snapshot event: time, hist, names, t (SI), sel (list of variables or <<>>), units, out = [ok, err, columns, rows]
SnapFails(e) ==
  IF ~e.out.ok THEN {"SnapshotRaised_" \o e.out.err}
  ELSE LET req == Requested(e.hist, e.sel)
           cols == { e.out.columns[x] : x \in 1..Len(e.out.columns) } IN
  Failing({ <<"SnapColumnsExactlyRequested", cols = ExpectedColumns(e.hist, e.sel, e.units)>>,
            <<"SnapNoDuplicateColumns", Cardinality(cols) = Len(e.out.columns)>> })
  \cup UNION { UNION {
        LET lab == Label(e.units, v)
            row == IF e.names[i] \in DOMAIN e.out.rows THEN e.out.rows[e.names[i]] ELSE [x \in {} |-> "nan"]
            cell == IF lab \in DOMAIN row THEN row[lab] ELSE "nan" IN
        IF Records(e.hist, i, v)
        THEN IF IsNan(cell) THEN {"SnapMissingValue_" \o v}
             ELSE IF ~RIsNum(cell) THEN {"SnapNonFinite_" \o v}
             ELSE LET s == e.hist[i][v]
                      exp == InUnit(e.units, v, Interp(e.time, s, e.t))
                      sc == InUnit(e.units, v, InterpScale(e.time, s, e.t)) IN
                  IF CloseS(cell, exp, Eps, RAbs(sc)) THEN {} ELSE {"SnapValue_" \o v}
        ELSE IF IsNan(cell) THEN {} ELSE {"SnapValueForUnrecordedVariable_" \o v}
      : v \in req } : i \in 1..Len(e.hist) }

\* export event: for element i: csv = [columns, data (column |-> list)], tunit
ExportFails(e) ==
  IF ~e.out.ok THEN {"ExportRaised_" \o e.out.err}
  ELSE UNION {
    LET csv == e.out.files[i]
        recorded == { v \in VarSet : v \in DOMAIN e.hist[i] }
        tlab == "time (" \o e.tunit \o ")"
        expcols == {tlab} \cup { Label(e.units, v) : v \in recorded }
        cols == { csv.columns[x] : x \in 1..Len(csv.columns) } IN
    Failing({ <<"ExportColumns", cols = expcols>>,
              <<"ExportRowsPerInstant", \A c \in cols : Len(csv.data[c]) = Len(e.time)>> })
    \cup (IF cols # expcols \/ \E c \in cols : Len(csv.data[c]) # Len(e.time) THEN {}
          ELSE Failing({ <<"ExportTimeColumn", \A j \in 1..Len(e.time) :
                              RIsNum(csv.data[tlab][j]) /\ CloseS(csv.data[tlab][j], Conv(e.time[j], "Time", "sec", e.tunit), Eps, RAbs(Conv(e.time[j], "Time", "sec", e.tunit)))>> })
               \cup { "ExportValue_" \o v : v \in { v \in recorded :
                        \E j \in 1..Len(e.time) : LET c == csv.data[Label(e.units, v)][j]  x == InUnit(e.units, v, e.hist[i][v][j]) IN
                                                  ~(RIsNum(c) /\ CloseS(c, x, Eps, RAbs(x))) } })
    : i \in 1..Len(e.hist) }

Fails(e) == IF e.ev = "snapshot" THEN SnapFails(e) ELSE ExportFails(e)
Init == tid \in 1..Len(Traces)
Next == tid > 0 /\ Verdict(Traces[tid].id, Fails(Traces[tid])) /\ tid' = 0
=============================================================================
