--------------------------------- MODULE Api ---------------------------------
(***************************************************************************)
(* Error contracts of the public calls, from the "Raises" sections of the  *)
(* documentation (growth beyond the twenty listed properties; a mismatch   *)
(* is reported in the evidence of C17 / C18 as a note, not as a verdict).  *)
(* A call is abstracted to  [call, arg]  where `arg' names the class of    *)
(* the offending argument ("ok" = every argument valid).  Expected(c) is   *)
(* the set of allowed outcomes; a refused call must leave the observable   *)
(* state (time axis, histories, relation attributes) unchanged.            *)
(***************************************************************************)
EXTENDS TLC

E(call, arg) == <<call, arg>>
Expected(call, arg) ==
  CASE call = "Solver" -> IF arg = "ok" THEN {"ok"} ELSE {"TypeError"}
    [] call = "run" ->
         (CASE arg = "ok" -> {"ok"}
           [] arg \in {"dt_not_interval", "T_not_interval", "control_wrong_type", "stop_wrong_type", "load_returns_number"} -> {"TypeError"}
           [] arg \in {"dt_ge_T", "dt_eq_T", "no_external_torque"} -> {"ValueError"})
    [] call = "snapshot" ->
         (CASE arg = "ok" -> {"ok"}
           [] arg \in {"target_not_time", "variables_not_list", "variable_not_str", "unit_not_str", "print_not_bool"} -> {"TypeError"}
           [] arg \in {"target_before", "target_after", "variables_empty", "variable_unknown", "nothing_simulated"} -> {"ValueError"}
           [] arg = "unit_unknown" -> {"KeyError"})
    [] call = "export" ->
         (CASE arg = "ok" -> {"ok"}
           [] arg \in {"folder_not_str", "unit_not_str"} -> {"TypeError"}
           [] arg = "folder_empty" -> {"ValueError"}
           [] arg = "unit_unknown" -> {"KeyError"})
    [] call = "external_torque" ->
         (CASE arg = "ok" -> {"ok"} [] arg = "not_callable" -> {"TypeError"} [] arg = "missing_parameter" -> {"KeyError"})
    [] call = "pwm" -> (CASE arg = "ok" -> {"ok"} [] arg = "not_number" -> {"TypeError"} [] arg = "out_of_range" -> {"ValueError"})
    [] call = "add_rule" -> IF arg = "ok" THEN {"ok"} ELSE {"TypeError"}
    [] call = "StopCondition" -> IF arg = "ok" THEN {"ok"} ELSE {"TypeError"}
    [] call = "Timer" -> IF arg = "ok" THEN {"ok"} ELSE {"TypeError"}
    [] call = "sensor_get_value" -> (CASE arg = "ok" -> {"ok"} [] arg = "unit_not_str" -> {"TypeError"} [] arg = "unit_unknown" -> {"KeyError"})
    [] call = "Amperometer" -> (CASE arg = "ok" -> {"ok"} [] arg = "not_motor" -> {"TypeError"} [] arg = "no_current_data" -> {"ValueError"})
    [] call = "update_time" -> IF arg = "ok" THEN {"ok"} ELSE {"TypeError"}
    [] call = "quantity" -> (CASE arg = "ok" -> {"ok"} [] arg \in {"value_not_number", "unit_not_str"} -> {"TypeError"} [] arg = "unit_unknown" -> {"KeyError"}
                              [] arg = "sign" -> {"ValueError"})
    [] call = "element_name" -> (CASE arg = "ok" -> {"ok"} [] arg = "not_str" -> {"TypeError"} [] arg = "empty" -> {"ValueError"})
\* calls that validate before touching anything: a refusal leaves the state unchanged
ValidatesFirst(call, arg) == ~(call = "run" /\ arg = "load_returns_number")      \* (instant 0 is appended to the axis before the load is read)
=============================================================================
