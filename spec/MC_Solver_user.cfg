SPECIFICATION Spec
CONSTANTS
  Instances <- UserInstances
  MaxInstants = 4
  MaxEpochs = 1
  MaxSolvers = 2
  RunLengths <- RunLens
  UserPwms <- UserPwmSet
  UserStates <- UserStateSet
INVARIANT C01_Coupled
INVARIANT C02_Torques
INVARIANT C03_Motion
INVARIANT C11_Grid
INVARIANT C13_SignSafe
INVARIANT C13_NoClamp
INVARIANT C13_HeldMeansStill
INVARIANT C14_Range
INVARIANT C17_Rect
INVARIANT C12_SplitAndRerun
PROPERTY RefinesLockAbs
CHECK_DEADLOCK FALSE
