---------------------------- MODULE Trace_Solver ----------------------------
(***************************************************************************)
(* Code -> spec validation of recorded executions of the real solver:      *)
(* schedules of public calls (new Solver / run / continue / reset / rerun) *)
(* on real powertrains.  One TLC state per recorded instant; the solver's  *)
(* private lock bit is NOT logged - it is a variable of this spec, chosen  *)
(* by SolverOps!LockSet and confirmed by its observable consequences.      *)
(*                                                                         *)
(* Verdict lines:  V|tid|FAIL|clauses@op.instant   for every step no       *)
(* branch explains, and  V|tid|ACCEPT  when a branch reaches the end of    *)
(* the trace without a failure (the runner accepts a trace iff some branch *)
(* accepts).  U|tid|... lines report unjudged near-threshold decisions.    *)
(***************************************************************************)
EXTENDS SolverOps, TraceLib, Json, IOUtils

Traces == ndJsonDeserialize(IOEnv.TRACE_FILE)
VARIABLES tid, oi, ph, k, lk, nf
vars == <<tid, oi, ph, k, lk, nf>>

Eps  == "1e-9"
\* Exact traces (dyadic numbers, decisions placed exactly ON their thresholds) are judged at the threshold itself:
\* no rounding band (a negative band is never met)
BandOf == IF "exact" \in DOMAIN Traces[tid] /\ Traces[tid].exact THEN "-1" ELSE Band

Tr == Traces[tid]
Op == Tr.ops[oi]
\* the chain as declared during the epoch of the current operation (relations may be re-declared between epochs)
\* (a run carries the chain as it was declared when that run was made; relations may be re-declared between runs)
Ch == IF oi <= Len(Tr.ops) /\ "elems" \in DOMAIN Tr.ops[oi] THEN Tr.ops[oi].elems
      ELSE IF "elems_by_epoch" \in DOMAIN Tr /\ oi <= Len(Tr.ops) /\ "epoch" \in DOMAIN Tr.ops[oi] /\ Tr.ops[oi].epoch <= Len(Tr.elems_by_epoch)
      THEN Tr.elems_by_epoch[Tr.ops[oi].epoch] ELSE Tr.elems
Ep(r) == Tr.epochs[r.epoch]

Get(rec, f) == IF f \in DOMAIN rec THEN rec[f] ELSE <<>>
ValAt(h, f, j) == LET s == Get(h, f) IN IF j <= Len(s) THEN s[j] ELSE SNull
\* the recorded instant j of epoch ep
Inst(ep, j) ==
  [t |-> ep.time[j], pwm |-> ValAt(ep.hist[1], "pwm", j), cur |-> ValAt(ep.hist[1], "electric_current", j),
   el |-> [i \in 1..Len(ep.hist) |->
            [pos |-> ValAt(ep.hist[i], "angular_position", j), spd |-> ValAt(ep.hist[i], "angular_speed", j),
             acc |-> ValAt(ep.hist[i], "angular_acceleration", j), T |-> ValAt(ep.hist[i], "torque", j),
             Td |-> ValAt(ep.hist[i], "driving_torque", j), Tl |-> ValAt(ep.hist[i], "load_torque", j),
             ft |-> ValAt(ep.hist[i], "tangential_force", j), sb |-> ValAt(ep.hist[i], "bending_stress", j),
             sc |-> ValAt(ep.hist[i], "contact_stress", j)]]]
CoreNums(X) == /\ RIsNum(X.t) /\ RIsNum(X.pwm)
               /\ \A i \in 1..Len(X.el) : \A f \in {"pos", "spd", "acc", "T", "Td", "Tl"} : RIsNum(X.el[i][f])
               /\ \A i \in 1..Len(X.el) : \A f \in {"ft", "sb", "sc"} : X.el[i][f] = SNull \/ RIsNum(X.el[i][f])
               /\ (X.cur = SNull \/ RIsNum(X.cur))

\* Is the powertrain self-locking?  Decided by the SPECIFICATION from the chain the trace describes (a worm mating whose friction
\* coefficient exceeds cos(alpha) tan(beta)), not read off the implementation's flag - except where the friction is not known
\* (executions of the repository's own tests: relation attributes only) or lies within rounding distance of its threshold.
\* (a worm that takes part in TWO worm matings - driven by a wheel and driving another - carries the flag of whichever was
\* declared last (C10: every declaration recomputes it); the trace does not carry that order, so the flag is then read)
TwiceMated == \E i \in 2..(Len(Tr.elems) - 1) : Tr.elems[i].kind = "WormGear" /\ Tr.elems[i].rtype = "worm" /\ Tr.elems[i + 1].rtype = "worm"
ChainKnown == (\A i \in 1..Len(Tr.elems) : Tr.elems[i].rtype # "attr") /\ ~TwiceMated
SLclass == SelfLockingClass(Tr.elems)
SL == IF ChainKnown /\ SLclass # "band" THEN SLclass = "true" ELSE Tr.selfLocking
NumSteps(r) == RRound(RDiv(r.T, r.dt))                      \* T = n * dt (generated so)
Fresh(r) == r.first = 1
ExpectedLast(r) == IF Fresh(r) THEN RToInt(NumSteps(r)) + 1 ELSE r.first + RToInt(NumSteps(r)) - 1
\* instants of this run that were fully computed and recorded
RecCount(r) == IF r.outcome = "ok" THEN r.last ELSE r.last - 1

(* ---- C11: the time axis ---- *)
GridFails(r, ep, j) ==
  LET t0 == IF Fresh(r) THEN "0" ELSE ep.time[r.first - 1]
      m  == IF Fresh(r) THEN j - 1 ELSE j - r.first + 1
      exp == RAdd(t0, RMul(RFromInt(m), r.dt)) IN
  \* tolerance: a fraction of the step plus the floating-point resolution of the instant itself
  Failing({ <<"GridInstant", RIsNum(ep.time[j]) /\ RLe(RAbs(RSub(ep.time[j], exp)), RAdd(RMul(Eps, r.dt), RMul("1e-14", RAbs(exp))))>>,
            <<"GridNotBeyondT", j <= ExpectedLast(r)>> })

(* ---- C14 / C15: control at instant j of run r ---- *)
RuleEv(r, j, idx) == { e \in { r.rule[x] : x \in 1..Len(r.rule) } : e.at = j /\ e.idx = idx }
CtlEv(r, j) == { e \in { r.control[x] : x \in 1..Len(r.control) } : e.at = j }
EffProd(ch) == LET RECURSIVE P(_) P(i) == IF i = 1 THEN "1" ELSE RMul(P(i - 1), Eff(ch, i)) IN P(Len(ch))
NearT(a, b, scale) == RLe(RAbs(RSub(a, b)), RMul(BandOf, scale))

\* what the documentation says rule `ru' proposes at the recorded state X  ->  set of allowed proposals
\* ("null" = not applicable; "any" = not judged: a window boundary within rounding distance)
RuleAllowed(ru, X, ep, j, dt) ==
  LET m == MotorOf(Ch) IN
  CASE ru.type = "const" ->
         IF NearT(X.t, ru.start, dt) \/ NearT(RSub(X.t, ru.start), ru.dur, dt) THEN {"any"}
         ELSE {ConstantPWM(ru, X.t)}
    [] ru.type = "custom" -> {ru.script[((j - 1) % Len(ru.script)) + 1]}
    [] ru.type = "reach" ->
         LET th == X.el[ru.el].pos  ts == BrakeStart(ru, X.el[1].Tl, m.Tmax, EffProd(Ch)) IN
         IF NearT(th, ts, RAdd(RAbs(th), RAbs(ts))) THEN {"any"}
         ELSE {ReachAngularPosition(ru, th, X.el[1].Tl, m.Tmax, EffProd(Ch))}
    [] ru.type = "startprop" ->
         LET th == X.el[ru.el].pos
             \* the first recorded load torque of this history, or the current one while nothing is recorded yet
             ref == IF ValAt(ep.hist[1], "load_torque", 1) = SNull THEN X.el[1].Tl ELSE ValAt(ep.hist[1], "load_torque", 1)
             o == StartProportional(ru, th, m, ref, EffProd(Ch)) IN
         IF o.t = "raise" THEN {"raise"}
         ELSE IF NearT(th, ru.target, RAdd(RAbs(th), RAbs(ru.target))) THEN {"any"}
         ELSE IF o.t = "val" THEN {o.v} ELSE {CNull}
    [] ru.type = "startlim" ->
         LET th == X.el[ru.el].pos IN
         IF NearT(th, ru.target, RAdd(RAbs(th), RAbs(ru.target))) THEN {"any"}
         ELSE IF RLe(th, ru.target) THEN {"slc"} ELSE {CNull}

RuleOK(ru, X, ep, j, dt, ev) ==
  LET al == RuleAllowed(ru, X, ep, j, dt) IN
  IF "any" \in al THEN TRUE
  ELSE IF "raise" \in al THEN ev.raised # ""
  ELSE IF ev.raised # "" THEN FALSE
  ELSE IF "slc" \in al THEN
       /\ ev.ret # CNull /\ RIsNum(ev.ret)
       /\ SLCIsValue(ev.ret, RDiv(X.el[ru.el_tach].spd, MotorOf(Ch).w0), RDiv(ru.ilim, MotorOf(Ch).imax), MotorOf(Ch), Eps)
  ELSE \E a \in al : IF a = CNull THEN ev.ret = CNull
                     ELSE ev.ret # CNull /\ RIsNum(ev.ret) /\ Cl(ev.ret, a, Eps, RAdd("1", RAbs(a)))

\* the control phase of instant j (X = the recorded instant, or the partially known one when the run aborted there)
ControlFails(r, ep, j, X, pwmF, dt) ==
  IF r.ctrl = 0 THEN Failing({ <<"PwmUnchangedWithoutControl", X.pwm = SNull \/ REq(X.pwm, pwmF)>> })
  ELSE LET rules == Tr.ctrls[r.ctrl]
           evs == [idx \in 1..Len(rules) |-> RuleEv(r, j, idx)]
           ce == CtlEv(r, j) IN
       IF \E idx \in 1..Len(rules) : Cardinality(evs[idx]) # 1 THEN
          \* a rule that raised stops the evaluation of the later ones
          IF \E idx \in 1..Len(rules) : \E e \in evs[idx] : e.raised # "" THEN {}
          ELSE {"RuleNotEvaluatedOnce"} \cup
               \* the arbitration is judged all the same: a rule the implementation did not consult proposes what its documentation
               \* says it proposes at this instant (where that is a single value): not asking a rule does not make it inapplicable
               LET al(idx) == RuleAllowed(rules[idx], X, ep, j, dt)
                   derivable(idx) == Cardinality(al(idx)) = 1 /\ al(idx) \cap {"any", "raise", "slc"} = {}
                   known(idx) == Cardinality(evs[idx]) = 1 \/ (evs[idx] = {} /\ derivable(idx)) IN
               IF ~(\A idx \in 1..Len(rules) : known(idx)) \/ Cardinality(ce) # 1 THEN {}
               ELSE LET props == [idx \in 1..Len(rules) |-> IF Cardinality(evs[idx]) = 1 THEN (CHOOSE e \in evs[idx] : TRUE).ret
                                                              ELSE CHOOSE a \in al(idx) : TRUE]
                        c == CHOOSE c \in ce : TRUE IN
                    IF ~(\A idx \in 1..Len(rules) : props[idx] = CNull \/ RIsNum(props[idx])) THEN {}
                    ELSE LET arb == Arbitrate(props) IN
                         IF arb.t = "conflict" THEN Failing({ <<"ArbConflictMustRaise", c.raised = "ValueError">> })
                         ELSE Failing({ <<"ArbNoSpuriousError", c.raised = "">>,
                                        <<"ArbDutyCycle", c.raised = "" => (RIsNum(c.pwm) /\ Cl(c.pwm, arb.v, Eps, "1"))>> })
       ELSE LET ev(idx) == CHOOSE e \in evs[idx] : TRUE
                props == [idx \in 1..Len(rules) |-> ev(idx).ret]
                arb == IF \A idx \in 1..Len(rules) : props[idx] = CNull \/ RIsNum(props[idx]) THEN Arbitrate(props) ELSE [t |-> "nonfinite"]
            IN
            Failing({ <<"RuleValue@" \o ToString(idx), RuleOK(rules[idx], X, ep, j, dt, ev(idx))>> : idx \in 1..Len(rules) })
            \cup
            (IF \E idx \in 1..Len(rules) : ev(idx).raised # "" THEN {}
             ELSE IF Cardinality(ce) # 1 THEN {"ArbNoControlEvent"}
             ELSE LET c == CHOOSE c \in ce : TRUE IN
               IF arb.t = "nonfinite" THEN Failing({ <<"ArbNonFiniteProposalRejected", c.raised # "">> })
               ELSE IF arb.t = "conflict" THEN Failing({ <<"ArbConflictMustRaise", c.raised = "ValueError">> })
               ELSE Failing({ <<"ArbNoSpuriousError", c.raised = "">>,
                              <<"ArbDutyCycle", c.raised = "" => (RIsNum(c.pwm) /\ REq(c.pwm, arb.v))>>,
                              <<"ArbRecordedDutyCycle", (c.raised = "" /\ X.pwm # SNull) => REq(X.pwm, c.pwm)>>,
                              \* "applicable" is what the rules' documentation says, not what the rule objects answered: where every
                              \* rule's documented proposal at this instant is a single value, the duty cycle is the arbitration of those
                              <<"ArbDutyCycleOfDocumentedRules",
                                  LET al(idx) == RuleAllowed(rules[idx], X, ep, j, dt)
                                      derivable == \A idx \in 1..Len(rules) : Cardinality(al(idx)) = 1 /\ al(idx) \cap {"any", "raise", "slc"} = {} IN
                                  (derivable /\ c.raised = "" /\ RIsNum(c.pwm)) =>
                                     LET dp == [idx \in 1..Len(rules) |-> CHOOSE a \in al(idx) : TRUE] IN
                                     IF ~(\A idx \in 1..Len(rules) : dp[idx] = CNull \/ RIsNum(dp[idx])) THEN TRUE
                                     ELSE LET ad == Arbitrate(dp) IN ad.t = "pwm" => Cl(c.pwm, ad.v, Eps, "2")>> }))

(* ---- C16: the stop condition ---- *)
StopOf(r) == Tr.stops[r.stop]
SensorValue(s, X) == CASE s.sensor = "enc" -> X.el[s.el + 1].pos [] s.sensor = "tach" -> X.el[s.el + 1].spd [] s.sensor = "amp" -> X.cur
\* (C05: a reading and a threshold expressed in DIFFERENT units that denote the same magnitude up to rounding compare equal;
\* in one and the same unit the comparison is exact.  cross = the trace says the two units differ)
StopClassX(v, thr, cross) ==
                     IF REq(v, thr) THEN "same"
                     ELSE IF cross /\ RLe(RAbs(RSub(v, thr)), RMul(CmpRelSame, RMax(RAbs(v), RAbs(thr)))) THEN "same"
                     ELSE IF RLe(RAbs(RSub(v, thr)), RMul(BandOf, RMax(RAbs(v), RAbs(thr)))) THEN "band"
                     ELSE IF RLt(v, thr) THEN "less" ELSE "greater"
StopClass(v, thr) == StopClassX(v, thr, FALSE)
StopVerdict(s, cls) == CmpExpected(cls)[s.op]
SensEv(r, j) == { e \in { r.sensor[x] : x \in 1..Len(r.sensor) } : e.at = j }
StopFails(r, X, j) ==
  IF r.stop = 0 THEN {}
  ELSE IF j = 1 /\ Fresh(r) THEN Failing({ <<"StopNotCheckedAtInitialInstant", SensEv(r, j) = {}>> })
  ELSE LET s == StopOf(r)  v == SensorValue(s, X)  se == SensEv(r, j)
           cross == "thr_unit" \in DOMAIN r /\ se # {} /\ \A e \in se : "unit" \in DOMAIN e /\ e.unit # r.thr_unit
           cls == StopClassX(v, r.thr, cross) IN
       Failing({ <<"StopCheckedOncePerInstant", Cardinality(se) = 1>>,
                 <<"StopReadsRecordedValue", \A e \in se : RIsNum(e.ret) /\ REq(e.ret, v)>> })
       \cup (IF cls = "band" THEN {}
             ELSE Failing({ <<"StopAtFirstHit", StopVerdict(s, cls) => j = r.last>>,
                            <<"StopOnlyWhenTrue", (j = r.last /\ r.last < ExpectedLast(r)) => StopVerdict(s, cls)>> }))

\* near-threshold situations at instant j that are not judged (reported as U| lines: C07 pairs use them)
Unjudged(r, ep, j) ==
  LET X == Inst(ep, j) IN
  CoreNums(X) /\
  ( \/ (r.stop > 0 /\ ~(j = 1 /\ Fresh(r)) /\ LET v == SensorValue(StopOf(r), X)  se == SensEv(r, j)
                                                    cross == "thr_unit" \in DOMAIN r /\ se # {} /\ \A e \in se : "unit" \in DOMAIN e /\ e.unit # r.thr_unit IN
                                                v # SNull /\ StopClassX(v, r.thr, cross) = "band")
    \/ (r.ctrl > 0 /\ \E idx \in 1..Len(Tr.ctrls[r.ctrl]) : "any" \in RuleAllowed(Tr.ctrls[r.ctrl][idx], X, ep, j, r.dt))
    \* the instant within rounding distance of the time at which the load function steps: which side of the step the recorded
    \* time falls on depends on the unit the time axis is written in (0.05625 s is 0.056249999999999994 s when counted in hours)
    \/ (~("load_logged" \in DOMAIN Tr /\ Tr.load_logged) /\ RSign(Tr.load.cs) # 0 /\ RLe(RAbs(RSub(X.t, Tr.load.ts)), RMul(Band, RMax(RAbs(Tr.load.ts), r.dt))))
    \* the duty cycle within rounding distance of the dead-zone boundary: the documented torque law jumps there when the
    \* motor is moving and i0 = 0 (T -> -Tmax w/w0 as D -> 0+, but exactly 0 at D = 0), so which side a rounding error
    \* of 1e-16 in a proposal falls on is a discrete decision
    \/ (Ch[1].hasCurrent /\ RLe(RAbs(RSub(RAbs(X.pwm), DeadZone(MotorOf(Ch)))), RMul(Band, RMax(DeadZone(MotorOf(Ch)), "1")))) )

(* ---- traces of somebody else's load function: its returns are logged, the recorded load torque must be the return of that instant ---- *)
LoadLogged == "load_logged" \in DOMAIN Tr /\ Tr.load_logged
ZeroLoad == [c0 |-> "0", c1 |-> "0", c2 |-> "0", c3 |-> "0", ts |-> "0", cs |-> "0"]
LdOf == IF LoadLogged THEN ZeroLoad ELSE Tr.load
LoggedLoadFails(r, X, j) ==
  IF ~LoadLogged THEN {}
  ELSE LET evs == { e \in { r.load[x] : x \in 1..Len(r.load) } : e.at = j /\ e.el = N(Ch) } IN
       Failing({ <<"LoadFunctionCalledOncePerInstant", Cardinality(evs) = 1>>,
                 <<"LoadFunction", \A e \in evs : e.ret # SNull => (RIsNum(e.ret) /\ REq(e.ret, X.el[N(Ch)].Tl))>> })
\* a stop condition that is not the harness's: only its verdicts are logged
StopLogged(r) == "has_stop" \in DOMAIN r /\ r.has_stop
StopLoggedFails(r) ==
  IF ~StopLogged(r) THEN {}
  ELSE LET v == r.stop_verdicts  n == Len(v) IN
       Failing({ <<"StopCheckedOncePerInstant", n = r.last - r.first + (IF Fresh(r) THEN 0 ELSE 1)>>,
                 <<"StopAtFirstHit", \A i \in 1..(n - 1) : ~v[i]>>,
                 <<"StopOnlyWhenTrue", (n >= 1 /\ r.last < ExpectedLast(r)) => v[n]>> })

\* The state a step starts from.  Inside a run it is the previous recorded instant; the FIRST step of a continuation starts
\* from the live attributes of the last element as they are when run() is called (the user may have re-indexed the position
\* or set another speed between the two calls; untouched, they equal the last sample - LiveEqualsLastSample judges that).
PrevOf(r, ep, j) ==
  LET P == Inst(ep, j - 1)  n == Len(P.el)  L == r.pre_live[n] IN
  IF j = r.first /\ {"angular_position", "angular_speed", "angular_acceleration"} \subseteq DOMAIN L
     /\ RIsNum(L.angular_position) /\ RIsNum(L.angular_speed) /\ RIsNum(L.angular_acceleration)
  THEN [P EXCEPT !.el[n].pos = L.angular_position, !.el[n].spd = L.angular_speed, !.el[n].acc = L.angular_acceleration]
  ELSE P

(* ---- further external torques, on gears that are not the last element: such an element's load torque is its own load
        function's value (it REPLACES what is reflected up from downstream - implementation-shaped), elements upstream of it
        reflect that value ---- *)
ExtraLoads == IF "extra_loads" \in DOMAIN Tr THEN Tr.extra_loads ELSE <<>>
ExtraEls == { ExtraLoads[x].el : x \in 1..Len(ExtraLoads) }
ExtraLoadFails(X) ==
  Failing({ LET e == ExtraLoads[x]  ld == [c0 |-> e.ld.c0, c1 |-> e.ld.c1, c2 |-> e.ld.c2, c3 |-> e.ld.c3, ts |-> "0", cs |-> "0"] IN
            <<"LoadFunctionAt@" \o ToString(e.el),
              Cl(X.el[e.el].Tl, LoadFn(ld, X.t, X.el[e.el].pos, X.el[e.el].spd), Eps, LoadScale(ld, X.t, X.el[e.el].pos, X.el[e.el].spd))>>
          : x \in 1..Len(ExtraLoads) })

(* ---- one recorded instant ---- *)
\* P: previous instant or "none"; returns the failing clauses under the hypothesis `held'
InstFails(r, ep, j, held) ==
  LET X == Inst(ep, j)
      first == j = r.first
      hasPrev == j > 1
      P == IF hasPrev THEN PrevOf(r, ep, j) ELSE X
      dt == r.dt      \* the step the run was given (the spacing of the recorded axis is GridInstant's business)
      pwmF == IF first THEN r.pwm_before ELSE P.pwm IN
  IF ~CoreNums(X) \/ (hasPrev /\ ~CoreNums(P)) \/ ~RIsNum(pwmF) THEN {"NonFiniteSample"}
  ELSE GridFails(r, ep, j)
       \cup CoupledFails(Ch, X, Eps)
       \cup (TorqueFails(Ch, LdOf, X, Eps) \ ((IF LoadLogged THEN {"LoadFunction"} ELSE {}) \cup { "LoadUp@" \o ToString(i) : i \in ExtraEls }))
       \cup ExtraLoadFails(X)
       \cup LoggedLoadFails(r, X, j)
       \cup DynFails(Ch, X, held, Eps)
       \cup (IF hasPrev THEN StepFails(Ch, P, X, dt, held, Eps)
             ELSE Failing({ <<"InitialPos", ClR(X.el[N(Ch)].pos, r.pre_live[N(Ch)].angular_position, Eps)>>,
                            <<"InitialSpd", held \/ ClR(X.el[N(Ch)].spd, r.pre_live[N(Ch)].angular_speed, Eps)>> }))
       \cup StressFails(Ch, X, Eps)
       \cup CurrentFails(Ch, X, Eps)
       \cup ControlFails(r, ep, j, X, pwmF, r.dt)
       \cup StopFails(r, X, j)
       \cup Failing({ <<"LockSignSafe", SL => SignSafe(pwmF, IF RSign(BandOf) > 0 /\ RLe(RAbs(X.el[1].spd), SpeedFloor) THEN "0" ELSE X.el[1].spd)>>,
                      <<"ClampWithoutSelfLocking", held => SL>>,
                      <<"PwmRange", RLe("-1", X.pwm) /\ RLe(X.pwm, "1")>> })

\* candidates for the lock bit at instant j (given the bit before it)
LockCands(r, ep, j, prevLk) ==
  LET first == j = r.first
      hasPrev == j > 1
      P == IF hasPrev THEN PrevOf(r, ep, j) ELSE Inst(ep, j)
      dt == r.dt      \* the step the run was given (the spacing of the recorded axis is GridInstant's business)
      pwmF == IF first THEN r.pwm_before ELSE P.pwm
      tqF == IF first THEN r.tq_before ELSE P.el[1].T
      wN == IF hasPrev THEN AdvSpd(Ch, P, dt) ELSE r.pre_live[N(Ch)].angular_speed
      wsc == IF hasPrev THEN AdvScale(Ch, P, dt) ELSE RAbs(wN) IN
  IF (hasPrev /\ ~CoreNums(P)) \/ ~RIsNum(pwmF) \/ ~(tqF = SNull \/ RIsNum(tqF)) \/ ~RIsNum(wN) THEN {prevLk}
  ELSE LockSet(SL, prevLk, pwmF, tqF, RMul(RatioProd(Ch, 1), wN), RMul(RatioProd(Ch, 1), wsc), BandOf)

(* ---- end of a run: C11 count, C16 first hit, C17 rectangular histories and live attributes ---- *)
LensOK(r, n) == \A i \in 1..Len(r.lens) : \A f \in DOMAIN r.lens[i] : r.lens[i][f] = n
\* (the motor's "pwm" variable only comes into existence with its first sample: quirk, not judged)
AdvOK == \A i \in 1..Len(Ch) : { Ch[i].adv[x] : x \in 1..Len(Ch[i].adv) } \cup (IF i = 1 THEN {"pwm"} ELSE {}) = RecordedKeys(Ch, i)
LiveKeys == {"angular_position", "angular_speed", "angular_acceleration", "torque", "driving_torque", "load_torque",
             "tangential_force", "bending_stress", "contact_stress", "electric_current"}
LiveOK(r, ep) == LET n == RecCount(r) IN
   n >= 1 => \A i \in 1..Len(Ch) : \A f \in (DOMAIN ep.hist[i]) \ {"pwm"} :
                Len(ep.hist[i][f]) >= n /\ r.live[i][f] = ep.hist[i][f][n]
RunOutcomeExpected(r) ==
   LET c == CmpClass(r.dt, r.T) IN
   IF c = "band" THEN {"ok", "ValueError"} ELSE IF c \in {"same", "greater"} THEN {"ValueError"} ELSE {"ok"}
RunEndFails(r, ep) ==
  Failing({
    <<"GridCount", (r.outcome = "ok" /\ r.stop = 0 /\ ~StopLogged(r)) => r.last = ExpectedLast(r)>>,
    <<"GridPrefixWithStop", (r.outcome = "ok" /\ (r.stop > 0 \/ StopLogged(r))) => r.last <= ExpectedLast(r)>>,
    <<"RectOneSamplePerInstant", r.outcome = "ok" => LensOK(r, r.last)>>,
    <<"RectAdvertisedIsRecorded", AdvOK>>,
    <<"LiveEqualsLastSample", r.outcome = "ok" => LiveOK(r, ep)>>,
    <<"RectKinds", ep.kinds_ok>>,
    \* C17's consequence, observed: snapshots at the last, the first and between the last two instants, and an export, after
    \* every run that returned (the entries are the names of the exceptions raised, "" = none)
    <<"RectSnapshotNeverFails", ("snap" \in DOMAIN r /\ r.outcome = "ok") => \A i \in 1..Len(r.snap) : r.snap[i] = "">>,
    <<"RectExportNeverFails", ("export" \in DOMAIN r /\ r.outcome = "ok") => r.export = "">> })

(* ---- reset ---- *)
ResetFails(r) ==
  LET ep == Tr.epochs[r.epoch] IN
  Failing({
    \* reset reads the first sample of every advertised variable: it can only succeed if there is one
    <<"ResetOutcome", r.outcome = "ok" \/ \E i \in 1..Len(Ch) : \E f \in DOMAIN ep.hist[i] : Len(ep.hist[i][f]) = 0>>,
    <<"ResetClearsTime", r.outcome = "ok" => r.n_time = 0>>,
    <<"ResetClearsHistories", r.outcome = "ok" => LensOK(r, 0)>>,
    <<"ResetRestoresFirstSamples", (r.outcome = "ok" /\ Len(ep.time) > 0) =>
         \* WormForceNotReset (named deviation, observation O7): reset restores a worm gear's tangential force nowhere
         \A i \in 1..Len(Ch) : \A f \in (DOMAIN ep.hist[i]) \ {"pwm"} :
            (Len(ep.hist[i][f]) >= 1 /\ ~(Ch[i].kind = "WormGear" /\ f = "tangential_force")) => r.live[i][f] = ep.hist[i][f][1]>>,
    <<"ResetRestoresFirstDutyCycle", (r.outcome = "ok" /\ Len(ep.time) > 0) => REq(r.live[1].pwm, ep.hist[1].pwm[1])>> })

(* ---- the trace machine ---- *)
Tag(names, j) == { x \o "#" \o ToString(oi) \o "." \o ToString(j) : x \in names }
Report(f, j) == f # {} => PrintT("V|" \o Tr.id \o "|FAIL|" \o JoinSet(Tag(f, j)))

Init == tid \in 1..Len(Traces) /\ oi = 1 /\ ph = "op" /\ k = 0 /\ lk = <<>> /\ nf = 0

Skip == /\ ph = "op" /\ oi <= Len(Tr.ops) /\ Op.op \in {"set_initial", "set_pwm", "redeclare"}
        /\ oi' = oi + 1 /\ UNCHANGED <<tid, ph, k, lk, nf>>

NewSolver == /\ ph = "op" /\ oi <= Len(Tr.ops) /\ Op.op = "new_solver"
             /\ lk' = Append(lk, FALSE) /\ oi' = oi + 1 /\ UNCHANGED <<tid, ph, k, nf>>

RunBegin == /\ ph = "op" /\ oi <= Len(Tr.ops) /\ Op.op = "run"
            /\ LET r == Op
                   f == Failing({ <<"RunOutcome_" \o r.outcome, r.outcome \in RunOutcomeExpected(r) \/ (r.outcome \notin {"ok"} /\ r.last >= r.first)>>,
                                  <<"LockFlagOfPowertrain", Tr.selfLocking = SL>> }) IN
               /\ Report(f, 0) /\ nf' = nf + (IF f = {} THEN 0 ELSE 1)
               /\ IF r.last >= r.first /\ RecCount(r) >= r.first THEN ph' = "inst" /\ k' = r.first
                  ELSE ph' = "end" /\ k' = r.first
               \* a fresh run starts from an unlocked solver (repaired design, F3)
               /\ lk' = IF Fresh(r) THEN [lk EXCEPT ![r.sid] = FALSE] ELSE lk
            /\ UNCHANGED <<tid, oi>>

Instant == /\ ph = "inst"
           /\ LET r == Op  ep == Ep(r)
                  cands == LockCands(r, ep, k, lk[r.sid])
                  good == { c \in cands : InstFails(r, ep, k, c) = {} } IN
              /\ IF good # {} THEN /\ \E c \in good : lk' = [lk EXCEPT ![r.sid] = c]
                                   /\ nf' = nf
                 ELSE /\ \E c \in cands : lk' = [lk EXCEPT ![r.sid] = c]
                      /\ Report(InstFails(r, ep, k, CHOOSE c \in cands : TRUE), k)
                      /\ nf' = nf + 1
              /\ (Cardinality(cands) > 1 => PrintT("U|" \o Tr.id \o "|lock decision within rounding distance at " \o ToString(oi) \o "." \o ToString(k)))
              /\ (Unjudged(r, ep, k) => PrintT("U|" \o Tr.id \o "|stop or rule threshold within rounding distance at " \o ToString(oi) \o "." \o ToString(k)))
              /\ IF k < RecCount(r) THEN k' = k + 1 /\ ph' = "inst" ELSE k' = k /\ ph' = "end"
           /\ UNCHANGED <<tid, oi>>

\* the instant at which a run aborted (time appended, nothing recorded): only its control events can be judged
\* the state at the instant a run aborted, as the live attributes show it after the call (kinematics and load
\* torque of that instant are already computed when the control phase runs; the rest is stale and not used)
LiveInst(r, ep) ==
  [t |-> ep.time[r.last], pwm |-> r.live[1].pwm, cur |-> SNull,
   el |-> [i \in 1..Len(Ch) |-> [pos |-> r.live[i].angular_position, spd |-> r.live[i].angular_speed,
                                  acc |-> r.live[i].angular_acceleration, T |-> r.live[i].torque,
                                  Td |-> r.live[i].driving_torque, Tl |-> r.live[i].load_torque,
                                  ft |-> SNull, sb |-> SNull, sc |-> SNull]]]
AbortFails(r, ep) ==
  IF r.outcome = "ok" \/ r.last < r.first THEN {}
  ELSE LET j == r.last
           ce == CtlEv(r, j) IN
       IF r.ctrl = 0 \/ ce = {} THEN {}
       ELSE LET rules == Tr.ctrls[r.ctrl]
                X == LiveInst(r, ep)
                evOf(idx) == RuleEv(r, j, idx)
                props == [idx \in 1..Len(rules) |-> IF evOf(idx) = {} THEN CNull ELSE (CHOOSE x \in evOf(idx) : TRUE).ret]
                c == CHOOSE c \in ce : TRUE
                numsOK == \A i \in 1..Len(Ch) : RIsNum(X.el[i].pos) /\ RIsNum(X.el[i].spd) /\ RIsNum(X.el[i].Tl)
            IN
            Failing({ <<"ArbErrorOnlyOnConflict", c.raised # "" =>
                          \/ \E idx \in 1..Len(rules) : \E e \in evOf(idx) : e.raised # ""      \* a rule itself raised (judged below)
                          \/ \E idx \in 1..Len(rules) : props[idx] # CNull /\ ~RIsNum(props[idx])
                          \/ Arbitrate(props).t = "conflict">> })
            \cup (IF ~numsOK THEN {} ELSE
                  Failing({ <<"RuleValue@" \o ToString(idx), \A e \in evOf(idx) : RuleOK(rules[idx], X, ep, j, r.dt, e)>> : idx \in 1..Len(rules) }))

RunEnd == /\ ph = "end"
          /\ LET r == Op  ep == Ep(r)  f == RunEndFails(r, ep) \cup AbortFails(r, ep) \cup StopLoggedFails(r) IN
             /\ Report(f, 0) /\ nf' = nf + (IF f = {} THEN 0 ELSE 1)
          /\ ph' = "op" /\ oi' = oi + 1 /\ UNCHANGED <<tid, k, lk>>

Reset == /\ ph = "op" /\ oi <= Len(Tr.ops) /\ Op.op = "reset"
         /\ LET f == ResetFails(Op) IN Report(f, 0) /\ nf' = nf + (IF f = {} THEN 0 ELSE 1)
         /\ oi' = oi + 1 /\ UNCHANGED <<tid, ph, k, lk>>

Done == /\ ph = "op" /\ oi = Len(Tr.ops) + 1
        /\ (nf = 0 => PrintT("V|" \o Tr.id \o "|ACCEPT"))
        /\ ph' = "done" /\ UNCHANGED <<tid, oi, k, lk, nf>>

Next == Skip \/ NewSolver \/ RunBegin \/ Instant \/ RunEnd \/ Reset \/ Done
=============================================================================
