
