----------------------------- MODULE Trace_Ctor -----------------------------
(* Code -> spec validation of constructor / setter parameter validation (C19, second sentence). *)
EXTENDS Components, TraceLib, Json, IOUtils
Traces == ndJsonDeserialize(IOEnv.TRACE_FILE)
VARIABLE tid
Fails(e) == Failing({
   <<"Ctor_" \o e.cls \o "_" \o e.out, e.out \in CtorAllowed(e)>>,
   \* a refused duty cycle leaves the previous one in place; an accepted one is stored
   <<"PwmState", e.cls = "pwm" => IF e.out = "ok" THEN REq(e.after, e.v) ELSE REq(e.after, e.before)>> })
Init == tid \in 1..Len(Traces)
Next == tid > 0 /\ Verdict(Traces[tid].id, Fails(Traces[tid])) /\ tid' = 0
=============================================================================
