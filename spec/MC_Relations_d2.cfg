SPECIFICATION Spec
CONSTANTS
  MaxCalls = 2
  Objs <- CoreObjs
INVARIANT Sane
INVARIANT AssembledIsChain
PROPERTY RejectKeeps
PROPERTY PtImmutable
PROPERTY MutualAtCall
CONSTRAINT Emit
CHECK_DEADLOCK FALSE
