------------------------------ MODULE MC_Gear ------------------------------
EXTENDS Gear, Json
ASSUME GearLemmas
LewisInts == [z \in 10..520 |-> Lewis(RFromInt(z))]
ASSUME PrintT("LEWIS " \o ToJson(LewisInts))
ASSUME PrintT("MC_Gear: lemmas hold")
=============================================================================
