------------------------------- MODULE Solver -------------------------------
(***************************************************************************)
(* The simulation as a state machine (design model, exact rationals).      *)
(*                                                                         *)
(* One behaviour = one instance (chain, motor, load function, rule set,    *)
(* stop condition, dt, initial conditions) and one SCHEDULE of public      *)
(* calls: NewSolver / RunBegin / Step* / (run ends) / Reset (+ re-applied  *)
(* initial conditions) / rerun ...  The state is implementation-shaped:    *)
(*   time, hist      - Powertrain.time and the recorded instants           *)
(*   attr            - live attributes that survive between calls: the     *)
(*                     motor's duty cycle and net torque, the last         *)
(*                     element's position / speed / acceleration           *)
(*   solvers         - one private lock bit per Solver object              *)
(*   run             - the run in progress ("none" between calls)          *)
(*   epochs          - ghost: histories saved at each Reset (for C12)      *)
(* ComputeInstant is the *function* the solver evaluates at each instant;  *)
(* the invariants state that it satisfies the *relations* of SolverOps     *)
(* (with eps = 0), which are the ones trace validation checks against the  *)
(* real code - one source of truth for C01, C02, C03, C13, C14.            *)
(***************************************************************************)
EXTENDS SolverOps

CONSTANTS Instances,        \* set of instance records
          MaxInstants,      \* bound on Len(time) within one epoch
          MaxEpochs,        \* number of epochs (resets + 1)
          MaxSolvers,
          RunLengths,       \* set of step counts a run may request
          UserPwms,         \* duty cycles the USER may assign to the motor between two calls (empty: never)
          UserStates        \* [pos, spd] the user may re-index the output to between a run and its continuation (empty: never)
VARIABLES inst, time, hist, attr, solvers, run, epochs, lastSid
vars == <<inst, time, hist, attr, solvers, run, epochs, lastSid>>

Ch == inst.ch
NN == N(Ch)
SLflag == SelfLockingClass(Ch) = "true"
Mo == MotorOf(Ch)

(* ---- rule proposals at the state being computed (exact) ---- *)
EffProdAll == LET RECURSIVE P(_) P(i) == IF i = 1 THEN "1" ELSE RMul(P(i - 1), Eff(Ch, i)) IN P(NN)
Propose(ru, t, el, tlRef, j) ==
  CASE ru.type = "const"  -> ConstantPWM(ru, t)
    [] ru.type = "custom" -> ru.script[((j - 1) % Len(ru.script)) + 1]
    [] ru.type = "reach"  -> ReachAngularPosition(ru, el[ru.el].pos, el[1].Tl, Mo.Tmax, EffProdAll)
    [] ru.type = "startprop" -> LET o == StartProportional(ru, el[ru.el].pos, Mo, tlRef, EffProdAll) IN
                                IF o.t = "val" THEN o.v ELSE CNull         \* (instances give pmin, so it never raises)

(* ---- the function evaluated at every instant ---- *)
\* tlFirst: the first recorded load torque of the motor in this epoch ("null" while nothing is recorded)
\* t: time of the instant; posN: position of the last element; wAdv: its speed before clamping; pwmF, tqF: duty cycle
\* and motor net torque the lock decision reads; lkPrev: the solver's lock bit; j: index of the instant in the epoch
ComputeInstant(t, posN, wAdv, pwmF, tqF, lkPrev, j, tlFirst) ==
  LET wMotor == RMul(RatioProd(Ch, 1), wAdv)
      against == (RSign(pwmF) > 0 /\ RSign(wMotor) < 0) \/ (RSign(pwmF) < 0 /\ RSign(wMotor) > 0)
      lk == LockBranch(SLflag, lkPrev, pwmF, tqF, against)
      spdN == IF lk THEN "0" ELSE wAdv
      tlN == LoadFn(inst.ld, t, posN, spdN)
      RECURSIVE TlAt(_)
      TlAt(i) == IF i = NN THEN tlN ELSE RDiv(RDiv(TlAt(i + 1), Eff(Ch, i + 1)), Ratio(Ch, i + 1))
      kin == [i \in 1..NN |-> [pos |-> RMul(RatioProd(Ch, i), posN), spd |-> RMul(RatioProd(Ch, i), spdN), Tl |-> TlAt(i)]]
      tlRef == IF tlFirst = SNull THEN TlAt(1) ELSE tlFirst        \* first recorded motor load torque, else the current one
      props == [r \in 1..Len(inst.ctrl) |-> Propose(inst.ctrl[r], t, kin, tlRef, j)]
      arb == IF inst.hasCtrl THEN Arbitrate(props) ELSE [t |-> "pwm", v |-> pwmF]
  IN
  IF arb.t = "conflict" THEN [conflict |-> TRUE, lk |-> lk]
  ELSE LET pwm == arb.v
           td1 == Torque(Mo, kin[1].spd, pwm)
           RECURSIVE TdAt(_)
           TdAt(i) == IF i = 1 THEN td1 ELSE RMul(RMul(TdAt(i - 1), Eff(Ch, i)), Ratio(Ch, i))
           tN == RSub(TdAt(NN), tlN)
           accN == IF lk THEN "0" ELSE RDiv(tN, Jeq(Ch))
           X == [t |-> t, pwm |-> pwm,
                 cur |-> IF Ch[1].hasCurrent THEN CurrentFromTorque(Mo, td1, pwm) ELSE SNull,
                 el |-> [i \in 1..NN |-> [pos |-> kin[i].pos, spd |-> kin[i].spd, acc |-> RMul(RatioProd(Ch, i), accN),
                                          T |-> RSub(TdAt(i), kin[i].Tl), Td |-> TdAt(i), Tl |-> kin[i].Tl,
                                          ft |-> SNull, sb |-> SNull, sc |-> SNull]]]
       IN [conflict |-> FALSE, lk |-> lk, X |-> X]

(* ---- the stop condition ---- *)
SensorOf(X) == CASE inst.stop.sensor = "enc" -> X.el[inst.stop.el].pos [] inst.stop.sensor = "tach" -> X.el[inst.stop.el].spd
                 [] inst.stop.sensor = "amp" -> X.cur
StopTrue(X) == inst.stop.sensor # "none" /\
   LET c == RCmp(SensorOf(X), inst.stop.thr) IN
   CASE inst.stop.op = "gt" -> c > 0 [] inst.stop.op = "ge" -> c >= 0 [] inst.stop.op = "eq" -> c = 0
     [] inst.stop.op = "lt" -> c < 0 [] inst.stop.op = "le" -> c <= 0

(* ---- actions ---- *)
NoBase == [pos |-> SNull, spd |-> SNull, acc |-> SNull]
Init == /\ inst \in Instances
        /\ time = <<>> /\ hist = <<>> /\ solvers = <<>> /\ run = [t |-> "none"] /\ epochs = <<>> /\ lastSid = 0
        /\ attr = [pwm |-> "1", tq |-> SNull, pos |-> inst.pos0, spd |-> inst.spd0, acc |-> "0", lk |-> FALSE,
                   prevLk |-> FALSE, inForce |-> "0", moved |-> FALSE,
                   touched |-> FALSE, edited |-> FALSE, prevEdited |-> FALSE, base |-> NoBase]

\* more ghost fields: touched = the user intervened somewhere in this behaviour (C12 speaks about schedules of run / continue /
\* reset / rerun only); edited / prevEdited = the output was re-indexed since / before the newest instant; base = the state the
\* newest instant was integrated from (the live attributes at that moment - not necessarily the previous recorded instant)
NewSolver == /\ run.t = "none" /\ Len(solvers) < MaxSolvers
             /\ solvers' = Append(solvers, FALSE)
             /\ UNCHANGED <<inst, time, hist, attr, run, epochs, lastSid>>

\* ghost fields of attr (history variables, used by invariants and by the refinement of LockAbs): lk = the lock bit under which
\* the newest instant was computed, prevLk = the bit before that decision, inForce = the duty cycle the decision read,
\* moved = did the position change from the previous instant
Record(c, lkPrev, pwmF, w, base) ==
             /\ hist' = Append(hist, c.X)
             /\ attr' = [pwm |-> c.X.pwm, tq |-> c.X.el[1].T, pos |-> c.X.el[NN].pos, spd |-> c.X.el[NN].spd, acc |-> c.X.el[NN].acc,
                         lk |-> c.lk, prevLk |-> lkPrev, inForce |-> pwmF, moved |-> (hist # <<>> /\ RSign(w) # 0),
                         touched |-> attr.touched, edited |-> FALSE, prevEdited |-> attr.edited, base |-> base]

\* Solver.run(dt, n*dt): fresh (time empty: instant 0 is computed now, from an UNLOCKED solver) or continuation
RunBegin(s, n) ==
  /\ run.t = "none" /\ s \in 1..Len(solvers) /\ n \in RunLengths
  /\ Len(time) + n + (IF time = <<>> THEN 1 ELSE 0) <= MaxInstants
  \* a continuation is made with the Solver that made the previous run of this epoch (its lock bit is solver state; O8)
  /\ (time # <<>> => lastSid = s)
  /\ IF time = <<>>
     THEN LET c == ComputeInstant("0", attr.pos, attr.spd, attr.pwm, attr.tq, FALSE, 1, SNull) IN
          /\ time' = <<"0">>
          /\ IF c.conflict THEN /\ run' = [t |-> "error"] /\ UNCHANGED <<hist, attr>> /\ solvers' = [solvers EXCEPT ![s] = c.lk]
             ELSE /\ Record(c, FALSE, attr.pwm, attr.spd, NoBase) /\ solvers' = [solvers EXCEPT ![s] = c.lk]
                  /\ run' = [t |-> "running", sid |-> s, left |-> n, first |-> 1]
     ELSE /\ run' = [t |-> "running", sid |-> s, left |-> n, first |-> Len(time) + 1]
          /\ UNCHANGED <<time, hist, attr, solvers>>
  /\ lastSid' = s
  /\ UNCHANGED <<inst, epochs>>

Step ==
  /\ run.t = "running" /\ run.left > 0
  /\ LET t == RAdd(time[Len(time)], inst.dt)
         w == RAdd(attr.spd, RMul(attr.acc, inst.dt))                       \* speed first ...
         th == RAdd(attr.pos, RMul(w, inst.dt))                             \* ... then position with the advanced speed
         c == ComputeInstant(t, th, w, attr.pwm, attr.tq, solvers[run.sid], Len(time) + 1, hist[1].el[1].Tl) IN
     /\ time' = Append(time, t)
     /\ solvers' = [solvers EXCEPT ![run.sid] = c.lk]
     /\ IF c.conflict THEN run' = [t |-> "error"] /\ UNCHANGED <<hist, attr>>
        ELSE /\ Record(c, solvers[run.sid], attr.pwm, w, [pos |-> attr.pos, spd |-> attr.spd, acc |-> attr.acc])
             /\ IF StopTrue(c.X) \/ run.left = 1 THEN run' = [t |-> "none"]
                ELSE run' = [run EXCEPT !.left = run.left - 1]
  /\ UNCHANGED <<inst, epochs, lastSid>>

\* Powertrain.reset() followed by re-applying the initial conditions: time and histories cleared; the live attributes are
\* the FIRST RECORDED samples (implementation-shaped: also the duty cycle - F4), then position / speed are set again
Reset ==
  /\ run.t = "none" /\ time # <<>> /\ Len(epochs) + 1 < MaxEpochs
  /\ epochs' = Append(epochs, [hist |-> hist, time |-> time])
  /\ time' = <<>> /\ hist' = <<>>
  /\ attr' = [pwm |-> hist[1].pwm, tq |-> hist[1].el[1].T, pos |-> inst.pos0, spd |-> inst.spd0, acc |-> hist[1].el[NN].acc, lk |-> FALSE,
               prevLk |-> FALSE, inForce |-> "0", moved |-> FALSE,
               touched |-> attr.touched, edited |-> FALSE, prevEdited |-> FALSE, base |-> NoBase]
  /\ lastSid' = 0
  /\ UNCHANGED <<inst, solvers, run>>

\* between two calls the user assigns another duty cycle (motor.pwm = d) ...
UserPwm == /\ run.t = "none" /\ \E d \in UserPwms : d # attr.pwm /\ attr' = [attr EXCEPT !.pwm = d, !.touched = TRUE]
           /\ UNCHANGED <<inst, time, hist, solvers, run, epochs, lastSid>>
\* ... or re-indexes the output between a run and its continuation (last element's angular_position / angular_speed assigned)
UserReindex == /\ run.t = "none" /\ time # <<>> /\ ~attr.edited
               /\ \E st \in UserStates : attr' = [attr EXCEPT !.pos = st.pos, !.spd = st.spd, !.touched = TRUE, !.edited = TRUE]
               /\ UNCHANGED <<inst, time, hist, solvers, run, epochs, lastSid>>

Next == NewSolver \/ (\E s \in 1..MaxSolvers, n \in RunLengths : RunBegin(s, n)) \/ Step \/ Reset \/ UserPwm \/ UserReindex
Spec == Init /\ [][Next]_vars

(* ---- properties ---- *)
Newest == hist[Len(hist)]
Held(j) == \A i \in 1..NN : RSign(hist[j].el[i].spd) = 0 /\ RSign(hist[j].el[i].acc) = 0
\* C01, C02: the newest recorded instant satisfies the relations trace validation uses (eps = 0)
C01_Coupled == hist # <<>> => CoupledFails(Ch, Newest, "0") = {}
C02_Torques == hist # <<>> => TorqueFails(Ch, inst.ld, Newest, "0") = {}
\* C03: acceleration from net torque / equivalent inertia unless held; time-step update from the previous instant
\* (the step starts from the live attributes - `base' - which are the previous recorded instant unless the user re-indexed)
C03_Motion == Len(hist) >= 2 =>
   LET P0 == hist[Len(hist) - 1]  X == Newest
       P == [P0 EXCEPT !.el[NN].pos = attr.base.pos, !.el[NN].spd = attr.base.spd, !.el[NN].acc = attr.base.acc] IN
   /\ DynFails(Ch, X, attr.lk, "0") = {} /\ StepFails(Ch, P, X, inst.dt, attr.lk, "0") = {}
   /\ (~attr.prevEdited => P = P0)
\* C11: the time axis is the grid k dt
C11_Grid == \A j \in (IF time = <<>> THEN {} ELSE {Len(time)}) : time[j] = RMul(RFromInt(j - 1), inst.dt)
\* C13: the recorded motor speed is never opposite to the duty cycle in force; nothing is clamped without self-locking
\* (the duty cycle in force at a decision is the live attribute: the previous recorded one unless the user assigned another)
C13_SignSafe == (SLflag /\ hist # <<>>) => SignSafe(attr.inForce, Newest.el[1].spd)
C13_NoClamp == ~SLflag => \A s \in 1..Len(solvers) : ~solvers[s]
C13_HeldMeansStill == (hist # <<>> /\ attr.lk) => Held(Len(hist))
\* C14: every recorded duty cycle lies in [-1, 1]
C14_Range == hist # <<>> => RLe("-1", Newest.pwm) /\ RLe(Newest.pwm, "1")
\* C16: nothing is recorded after an instant at which the stop condition held (within one run)
C16_FirstHit == (run.t = "running" /\ Len(hist) > run.first) => \A j \in (run.first + (IF run.first = 1 THEN 1 ELSE 0))..(Len(hist) - 1) : ~StopTrue(hist[j])
\* C17: one recorded instant per time instant whenever no call raised
C17_Rect == run.t # "error" => Len(hist) = Len(time)

\* C13: Solver refines the sign abstraction LockAbs (every step of this machine is a step - or a stuttering step - of the
\* finite machine whose exhaustive exploration covers all real values); the mapping takes signs of the values the lock reads
Sgn(x) == IF RSign(x) > 0 THEN "1" ELSE IF RSign(x) < 0 THEN "-1" ELSE "0"
LA == INSTANCE LockAbs WITH
        sl <- SLflag,
        kind <- IF hist = <<>> THEN "start" ELSE "inst",
        lk <- IF hist = <<>> THEN FALSE ELSE attr.lk,
        pwm <- Sgn(attr.pwm),
        tq <- IF attr.tq = SNull THEN SNull ELSE Sgn(attr.tq),
        spd <- IF hist = <<>> \/ attr.edited THEN Sgn(attr.spd) ELSE Sgn(Newest.el[1].spd),
        acc <- IF hist = <<>> THEN "0" ELSE Sgn(attr.acc),
        moved <- attr.moved, prevLk <- attr.prevLk, inForce <- Sgn(attr.inForce),
        edited <- attr.edited, prevEdited <- attr.prevEdited
RefinesLockAbs == LA!ASpec

\* C12: the recorded history does not depend on how the epoch was cut into runs, on which Solver object made the first
\* run, or on whether it is the first epoch or a rerun after Reset: it is always a prefix of the reference trajectory -
\* the single run of a fresh, unlocked solver from the initial conditions with the motor's initial duty cycle 1.
RECURSIVE Ref(_)
\* Ref(j) = [lk, X, conflict] of instant j of the reference run
Ref(j) == IF j = 1 THEN ComputeInstant("0", inst.pos0, inst.spd0, "1", SNull, FALSE, 1, SNull)
          ELSE LET p == Ref(j - 1) IN
               IF p.conflict THEN p
               ELSE LET n == NN
                        w == RAdd(p.X.el[n].spd, RMul(p.X.el[n].acc, inst.dt))
                        th == RAdd(p.X.el[n].pos, RMul(w, inst.dt)) IN
                    ComputeInstant(RMul(RFromInt(j - 1), inst.dt), th, w, p.X.pwm, p.X.el[1].T, p.lk, j, Ref(1).X.el[1].Tl)
MatchesRef == hist # <<>> => LET r == Ref(Len(hist)) IN ~r.conflict /\ r.X = Newest
\* F4 (known finding, named deviation): Reset restores the FIRST RECORDED duty cycle, the original run started from the motor's
\* attribute (1); on a self-locking chain the instant-0 lock decision reads it.  The claim is made for every other case.
F4Case == SLflag /\ epochs # <<>> /\ epochs[1].hist[1].pwm # "1"
C12_SplitAndRerun == (~F4Case /\ ~attr.touched) => MatchesRef
\* reachability witness (vacuity guard): TLC must find a state after a reset in which a second Solver has recorded at least three
\* instants of a held self-locking chain - i.e. "violating" this invariant shows the interesting part of the space is explored
Witness_DeepRerun == ~(epochs # <<>> /\ Len(hist) >= 3 /\ Len(solvers) = 2 /\ lastSid = 2 /\ SLflag /\ attr.lk)
\* reachability witness for the user actions: a held self-locking chain that MOVED between two held instants because the user
\* gave its output a speed, after the user also assigned a duty cycle
Witness_UserMovesHeld == ~(SLflag /\ attr.prevEdited /\ attr.lk /\ attr.prevLk /\ attr.moved /\ attr.inForce \in UserPwms)
C12_Unguarded == ~attr.touched => MatchesRef            \* used by MC_Solver_F4.cfg: TLC must FIND the F4 counterexample
=============================================================================
