--------------------------- MODULE Trace_Quantity ---------------------------
(***************************************************************************)
(* Code -> spec validation for C06 (binary operations, inverse laws) and   *)
(* C19 (straight-line programs; every live object inspected after every    *)
(* step).  Reuses the outcome relations of Quantity.tla.                   *)
(*                                                                         *)
(*  binop : one recorded  a op b  with both operands given inline          *)
(*  laws  : (a+b)-b vs a   and   a-b vs -(b-a)                             *)
(*  prog  : a program; each step logs its outcome and the projection of    *)
(*          *all* live objects re-read from the implementation afterwards  *)
(***************************************************************************)
EXTENDS QuantityOps, TraceLib, Json, IOUtils

Traces == ndJsonDeserialize(IOEnv.TRACE_FILE)
VARIABLES tid, l, theap, nf
vars == <<tid, l, theap, nf>>

Eps == "1e-12"

WF(o) == o.kind = "Number" \/ (o.kind \in Kinds /\ o.unit \in UnitNames(o.kind))
NumOK(o) == RIsNum(o.val)

\* Floating-point reality at the bottom of the double range: a result whose numeric value (in its own unit)
\* is subnormal carries an absolute error of a few 5e-324, and a sign-constrained result that underflows
\* cannot be represented as a valid quantity at all - refusing it with ValueError is what C19 asks for.
Tiny == "1e-312"   \* 5e-324 amplified by the largest unit-factor ratio (1e9..1e10) of an intermediate subnormal
MinNormal == "2.3e-308"
Underflows(k, si) == k \in Kinds /\ \E u \in UnitNames(k) : RLt(RAbs(FromSI(k, u, si)), MinNormal)
Augment(allowed) == allowed \cup
   (IF \E al \in allowed : al.t = "ret" /\ al.kind \in (StrictPos \cup NonNeg) /\ Underflows(al.kind, al.si)
    THEN {Raise("ValueError")} ELSE {})

\* does the recorded outcome `out' match one of the allowed outcomes?
\* scale: condition scale of the operation (sum of |terms| for + and -, |result| for * and /), in SI
MatchOut(out, allowed0, scale) ==
  LET allowed == Augment(allowed0) IN
  IF out.t = "raise" THEN Raise(out.err) \in allowed
  ELSE /\ RIsNum(out.val)
       /\ \E al \in allowed :
            /\ al.t = "ret" /\ al.kind = out.kind
            /\ (out.kind # "Number" => out.unit \in UnitNames(out.kind))
            /\ LET f == IF out.kind = "Number" THEN "1" ELSE Factor(out.kind, out.unit) IN
               RLe(RAbs(RSub(SIof([kind |-> out.kind, unit |-> out.unit, val |-> out.val]), al.si)),
                   RAdd(RMul(Eps, scale), RMul(Tiny, f)))

ScaleBin(op, a, b) == IF op \in {"+", "-"} THEN RAdd(RAbs(SIof(a)), RAbs(SIof(b)))
                      ELSE IF op = "/" /\ RSign(SIof(b)) = 0 THEN "0" ELSE RAbs(Exact(op, a, b))

\* Cancellation at the validity boundary: when the exact result of a + or - on sign-constrained kinds lies within the rounding
\* band (Eps x condition scale) of zero, the floating-point result may fall on either side of the boundary (e.g. a quantity minus
\* itself re-expressed in another unit gives exactly 0.0 where the exact difference of the two doubles is 4e-23): both the
\* refusal (ValueError) and the returned value are then explained.  Validity of whatever object IS returned stays judged (C19).
AllowedBinT(op, a, b) ==
  LET al == AllowedBin(op, a, b)
      D == Dictated(op, a.kind, b.kind) IN
  IF D = {} \/ (op = "/" /\ RSign(SIof(b)) = 0) \/ ~(\E k \in D : k \in (StrictPos \cup NonNeg)) THEN al
  ELSE LET x == Exact(op, a, b) IN
       IF RLe(RAbs(x), RMul(Eps, ScaleBin(op, a, b))) THEN al \cup {Raise("ValueError")} \cup { Ret(k, x) : k \in D } ELSE al

BinopFails(e) ==
  IF ~(WF(e.a) /\ WF(e.b) /\ NumOK(e.a) /\ NumOK(e.b)) THEN {"BinMalformed"}
  ELSE LET al == AllowedBinT(e.op, e.a, e.b) IN
       IF MatchOut(e.out, al, ScaleBin(e.op, e.a, e.b)) THEN {}
       ELSE IF e.out.t = "raise" THEN {"BinRaised_" \o e.out.err}
       ELSE IF \A x \in al : x.t = "raise" THEN {"BinReturnedButMustRaise"}
       ELSE IF ~(\E x \in al : x.t = "ret" /\ x.kind = e.out.kind) THEN {"BinResultKind"}
       ELSE {"BinResultMagnitude"}

\* inverse laws, whenever both sides are defined (returned)
LawFails(e) ==
  LET sc == RAdd(RAbs(SIof(e.a)), RAbs(SIof(e.b)))
      si(o) == SIof([kind |-> o.kind, unit |-> o.unit, val |-> o.val]) IN
  Failing({
    <<"LawAddSub", (e.r1.t = "ret") => CloseS(si(e.r1), SIof(e.a), Eps, sc)>>,
    <<"LawAntiSym", (e.r2.t = "ret" /\ e.r3.t = "ret") => CloseS(si(e.r2), si(e.r3), Eps, sc)>> })

(* ---- programs ---- *)
SameObj(x, y) == x.kind = y.kind /\ x.unit = y.unit /\ REq(x.val, y.val)
Operand(h, d) == IF d.slot > 0 THEN h[d.slot] ELSE [kind |-> "Number", unit |-> "", val |-> d.num]

StepAllowed(h, s) ==
  CASE s.op = "new" -> AllowedNew(s.kind, s.unit, s.val)
    [] s.op \in {"+", "-", "*", "/"} -> AllowedBinT(s.op, Operand(h, s.a), Operand(h, s.b))
    [] s.op = "neg" -> AllowedNeg(Operand(h, s.a))
    [] s.op = "abs" -> AllowedAbs(Operand(h, s.a))
    [] s.op \in {"to", "to_inplace"} -> AllowedTo(Operand(h, s.a), s.unit)
StepScale(h, s) ==
  CASE s.op \in {"+", "-", "*", "/"} -> ScaleBin(s.op, Operand(h, s.a), Operand(h, s.b))
    [] s.op = "new" -> IF s.unit \in UnitNames(s.kind) THEN RAbs(SI(s.val, s.kind, s.unit)) ELSE "0"
    [] OTHER -> RAbs(SIof(Operand(h, s.a)))

\* the logged post-heap must be the pre-heap, plus at most the one change this step explains
HeapStepOK(h, s) ==
  LET g == s.heap IN
  IF s.out.t = "raise" \/ (s.out.t = "ret" /\ s.out.kind = "Number")
    THEN Len(g) = Len(h) /\ \A i \in 1..Len(h) : SameObj(g[i], h[i])
  ELSE IF s.op = "to_inplace"
    THEN /\ Len(g) = Len(h) /\ s.out.slot = s.a.slot
         /\ \A i \in 1..Len(h) : i # s.a.slot => SameObj(g[i], h[i])
         /\ SameObj(g[s.a.slot], [kind |-> s.out.kind, unit |-> s.out.unit, val |-> s.out.val])
         /\ g[s.a.slot].unit = s.unit
  ELSE /\ Len(g) = Len(h) + 1 /\ s.out.slot = Len(g)
       /\ \A i \in 1..Len(h) : SameObj(g[i], h[i])
       /\ SameObj(g[Len(g)], [kind |-> s.out.kind, unit |-> s.out.unit, val |-> s.out.val])
       /\ (s.op = "to" => g[Len(g)].unit = s.unit)

StepFails(h, s) ==
  IF ~(\A i \in 1..Len(s.heap) : WF(s.heap[i]) /\ NumOK(s.heap[i])) \/ (s.out.t = "ret" /\ ~RIsNum(s.out.val))
     THEN {"UNJUDGED_NonFinite"}        \* overflow to inf/nan: outside the property (finite operands); counted, not judged
  ELSE Failing({
    \* C19: every live object is inspected after every step; an object is reported at the step that made it
    \* invalid (a new object, or a slot whose content changed), not again at every later step
    <<"LiveObjectInvalid", \A i \in 1..Len(s.heap) :
          Valid(s.heap[i]) \/ (i <= Len(h) /\ SameObj(s.heap[i], h[i]))>>,
    <<"Outcome_" \o s.op, MatchOut(s.out, StepAllowed(h, s), StepScale(h, s))>>,
    <<"HeapChange_" \o s.op, HeapStepOK(h, s)>> })

Init == tid \in 1..Len(Traces) /\ l = 1 /\ theap = <<>> /\ nf = 0

Single == /\ l = 1 /\ Traces[tid].ev \in {"binop", "laws"}
          /\ LET e == Traces[tid] IN
             Verdict(e.id, IF e.ev = "binop" THEN BinopFails(e) ELSE LawFails(e))
          /\ l' = 0 /\ UNCHANGED <<tid, theap, nf>>

ProgStep == /\ l > 0 /\ Traces[tid].ev = "prog" /\ l <= Len(Traces[tid].steps)
            /\ LET s == Traces[tid].steps[l]  f == StepFails(theap, s) IN
               /\ (f # {} => PrintT("V|" \o Traces[tid].id \o "|FAIL|" \o JoinSet({ x \o "@" \o ToString(l) : x \in f })))
               /\ nf' = nf + (IF f = {} THEN 0 ELSE 1)
               /\ theap' = s.heap            \* resynchronise on the logged heap so later steps are still checked
            /\ l' = l + 1 /\ UNCHANGED tid

ProgEnd == /\ l > 0 /\ Traces[tid].ev = "prog" /\ l = Len(Traces[tid].steps) + 1
           /\ (nf = 0 => PrintT("V|" \o Traces[tid].id \o "|ACCEPT"))
           /\ l' = 0 /\ UNCHANGED <<tid, theap, nf>>

Next == Single \/ ProgStep \/ ProgEnd
Spec == Init /\ [][Next]_vars
=============================================================================
