SPECIFICATION Spec
CONSTANTS
  Instances <- UserInstances
  MaxInstants = 4
  MaxEpochs = 1
  MaxSolvers = 2
  RunLengths <- RunLens
  UserPwms <- UserPwmSet
  UserStates <- UserStateSet
INVARIANT Witness_UserMovesHeld
CHECK_DEADLOCK FALSE
