------------------------------ MODULE Control ------------------------------
(***************************************************************************)
(* Timer, the four built-in duty-cycle rules and the arbitration of        *)
(* PWMControl (C14, C15), from the documentation.                          *)
(*                                                                         *)
(* A rule is a record [type, start, dur, val, el, el_tach, target, brake,  *)
(* mult, pmin, ilim, script].  A proposal is a rational or "null"          *)
(* (rule not applicable).  Windows are inclusive at both ends.             *)
(***************************************************************************)
EXTENDS Motor, FiniteSets

CNull == "null"

(* ---- timer / ConstantPWM ---- *)
TimerActive(t, start, dur) == RLe(start, t) /\ RLe(RSub(t, start), dur)
ConstantPWM(r, t) == IF TimerActive(t, r.start, r.dur) THEN RNorm(r.val) ELSE CNull

(* ---- ReachAngularPosition ---- *)
\* static error: load torque seen by the motor / maximum torque / efficiency product * braking angle
StaticError(TlMotor, Tmax, effProd, brake) ==
   IF TlMotor = CNull THEN "0" ELSE RMul(RDiv(RDiv(TlMotor, Tmax), effProd), brake)
BrakeStart(r, TlMotor, Tmax, effProd) == RAdd(RSub(r.target, r.brake), StaticError(TlMotor, Tmax, effProd, r.brake))
ReachAngularPosition(r, theta, TlMotor, Tmax, effProd) ==
   LET ts == BrakeStart(r, TlMotor, Tmax, effProd) IN
   IF RGe(theta, ts) THEN RSub("1", RDiv(RSub(theta, ts), r.brake)) ELSE CNull

(* ---- StartProportionalToAngularPosition ---- *)
\* candidate minimum duty cycle: the one at which the motor just balances the (first recorded) load torque
PwmMinCandidate(m, TlRef, effProd) ==
   RAdd(RMul(RMul(RInv(effProd), RDiv(TlRef, m.Tmax)), RDiv(RSub(m.imax, m.i0), m.imax)), RDiv(m.i0, m.imax))
\* outcome: [t |-> "val", v] | [t |-> "none"] | [t |-> "raise", err]
StartProportional(r, theta, m, TlRef, effProd) ==
   LET cand == RMul(r.mult, PwmMinCandidate(m, TlRef, effProd)) IN
   IF RSign(cand) = 0 /\ r.pmin = CNull THEN [t |-> "raise", err |-> "ValueError"]
   ELSE LET pm == IF RSign(cand) # 0 THEN cand ELSE r.pmin IN
        IF RLe(theta, r.target) THEN [t |-> "val", v |-> RAdd(RMul(RSub("1", pm), RDiv(theta, r.target)), pm)]
        ELSE [t |-> "none"]

(* ---- StartLimitCurrent ---- *)
\* the proposed duty cycle D is the larger root of  D^2 - (s + e) D + s i0/imax = 0,
\* s = speed / no-load speed, e = limit current / maximum current  (no square root needed to *check* a value)
SLCResidual(D, s, e, m) == RAdd(RSub(RSq(D), RMul(RAdd(s, e), D)), RMul(s, RDiv(m.i0, m.imax)))
\* condition scale: D is a sum of terms of size |s| + |e| (it may cancel to ~0 when s + e < 0 and i0 = 0), so a rounding
\* error of eps (|s| + |e|) in D moves the residual by about eps (|s| + |e|)^2
SLCScale(D, s, e, m) == RAdd(RAdd(RSq(RAdd(RAbs(s), RAbs(e))), RSq(D)), RAbs(RMul(s, RDiv(m.i0, m.imax))))
SLCDisc(s, e, m) == RSub(RSq(RAdd(s, e)), RMul("4", RMul(s, RDiv(m.i0, m.imax))))
SLCIsValue(D, s, e, m, eps) ==
   /\ RLe(RAbs(SLCResidual(D, s, e, m)), RMul(eps, SLCScale(D, s, e, m)))
   /\ RGe(RMul("2", D), RSub(RAdd(s, e), RMul(eps, RAdd(RAbs(s), RAbs(e)))))          \* the larger root

(* ---- arbitration ---- *)
Clip(v) == RMax("-1", RMin("1", v))
\* props: sequence of proposals ("null" or rational).  Result: [t |-> "pwm", v] | [t |-> "conflict"]
Applicable(props) == { i \in 1..Len(props) : props[i] # CNull }
Arbitrate(props) == LET A == Applicable(props) IN
   IF Cardinality(A) >= 2 THEN [t |-> "conflict"]
   ELSE IF Cardinality(A) = 1 THEN [t |-> "pwm", v |-> Clip(props[CHOOSE i \in A : TRUE])]
   ELSE [t |-> "pwm", v |-> "1"]

(* ---- consequences checked by MC_Control ---- *)
ArbLemmas(Vals) ==
   \A p1 \in Vals, p2 \in Vals, p3 \in Vals :
      LET a == Arbitrate(<<p1, p2, p3>>)  n == Cardinality(Applicable(<<p1, p2, p3>>)) IN
      /\ (n >= 2 <=> a.t = "conflict")
      /\ (n <= 1 => RLe("-1", a.v) /\ RLe(a.v, "1"))
      /\ (n = 0 => a.v = "1")
      /\ (n = 1 => \E p \in {p1, p2, p3} : p # CNull /\ a.v = Clip(p))
\* while StartLimitCurrent is the winning, unclipped rule outside the dead zone the motor current equals the limit
\* (for any speed ratio s and duty cycle D > dead zone, taking e so that D is a root, the current law at (s*w0, D) is e*imax)
SLCLemma(m, s, D) ==
   LET e == RSub(RAdd(D, RDiv(RMul(s, RDiv(m.i0, m.imax)), D)), s) IN
   (RSign(D) > 0 /\ ~InDead(m, D)) =>
      /\ SLCResidual(D, s, e, m) = "0"
      /\ Current(m, RMul(s, m.w0), D) = RMul(e, m.imax)
=============================================================================
