SPECIFICATION Spec
CONSTANTS
  Instances <- TinyInstances
  MaxInstants = 4
  MaxEpochs = 2
  MaxSolvers = 2
  RunLengths <- RunLens
  UserPwms <- NoUser
  UserStates <- NoUser
INVARIANT Witness_DeepRerun
CHECK_DEADLOCK FALSE
