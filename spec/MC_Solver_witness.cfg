SPECIFICATION Spec
CONSTANTS
  Instances <- TinyInstances
  MaxInstants = 4
  MaxEpochs = 2
  MaxSolvers = 2
  RunLengths <- RunLens
INVARIANT Witness_DeepRerun
CHECK_DEADLOCK FALSE
