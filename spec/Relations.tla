----------------------------- MODULE Relations -----------------------------
(***************************************************************************)
(* Declaring relations between elements and assembling a powertrain        *)
(* (C10, C20).                                                             *)
(*                                                                         *)
(* obj : static data of every element  id |-> [kind, teeth (starts),       *)
(*        module, th (tan(helix/2)), alpha (rad), name]                    *)
(* rel : what the declaration calls write  id |-> [drives, drivenBy, role, *)
(*        ratio, eff, sl]   ("null" = unset; sl \in {"null","true",        *)
(*        "false"} only meaningful on worm gears)                          *)
(*                                                                         *)
(* Every public call is ONE atomic action: it is accepted (both elements   *)
(* updated) or rejected (error class, rel unchanged).  Outcome sets are    *)
(* singletons except inside the rounding band of a numeric threshold.      *)
(* Deliberately modelled quirks of the implementation (named):             *)
(*   StaleBackLink  - re-declaring m.drives leaves the old partner's       *)
(*                    drivenBy pointing at m;                              *)
(*   JointKeeps     - a fixed joint does not reset role / efficiency /     *)
(*                    self-locking previously set on the slave.            *)
(***************************************************************************)
EXTENDS Components

GearKinds == {"SpurGear", "HelicalGear", "WormWheel"}          \* "GearBase" family
WormKinds == {"WormGear", "WormWheel"}
Rotating  == {"DCMotor", "Flywheel", "SpurGear", "HelicalGear", "WormGear", "WormWheel"}
HasHelix(k) == k \in {"HelicalGear", "WormWheel"}              \* what add_gear_mating looks at

FreshRel == [drives |-> Null, drivenBy |-> Null, role |-> "none", ratio |-> Null, eff |-> "1", sl |-> Null]

Ok(r)      == [t |-> "ok", err |-> "", rel |-> r]
Rej(e, r)  == [t |-> "raise", err |-> e, rel |-> r]

\* equality of two magnitudes as the quantity comparison decides it: same / different / not judged
EqClass(x, y) == IF x = y THEN "same" ELSE LET c == CmpClass(x, y) IN IF c \in {"less", "greater"} THEN "diff" ELSE c

\* An outcome set from the reasons for rejection: `hard' = error classes that certainly apply, `soft' = error
\* classes that apply only if a comparison inside its rounding band goes that way.  The property fixes that an
\* incompatible call is rejected and leaves the state unchanged, not which of several applicable errors is reported
\* first, so any applicable class is allowed.
Decide(rel, hard, soft, accs) ==
  IF hard # {} THEN { Rej(e, rel) : e \in hard \cup soft }
  ELSE { Rej(e, rel) : e \in soft } \cup { Ok(a) : a \in accs }

(* ---- gear mating ---- *)
\* numeric argument descriptor: [isnum |-> BOOLEAN, v |-> rational]
GearMating(obj, rel, m, s, eta) ==
  LET M == obj[m]  S == obj[s]
      kindsOK == M.kind \in GearKinds /\ S.kind \in GearKinds
      modc  == IF kindsOK /\ Has(M.module) /\ Has(S.module) THEN EqClass(M.module, S.module) ELSE "same"
      helc  == IF ~kindsOK THEN "same"
               ELSE IF HasHelix(M.kind) /\ HasHelix(S.kind) THEN EqClass(M.th, S.th)
               ELSE IF HasHelix(M.kind) # HasHelix(S.kind) THEN "diff" ELSE "same"
      hard == (IF ~kindsOK THEN {"TypeError"} ELSE {})
              \cup (IF ~eta.isnum THEN {"TypeError"} ELSE {})
              \cup (IF m = s THEN {"ValueError"} ELSE {})
              \cup (IF eta.isnum /\ (RGt(eta.v, "1") \/ RSign(eta.v) < 0) THEN {"ValueError"} ELSE {})
              \cup (IF modc = "diff" \/ helc = "diff" THEN {"ValueError"} ELSE {})
      soft == IF modc = "band" \/ helc = "band" THEN {"ValueError"} ELSE {}
      acc  == [rel EXCEPT ![m].drives = s, ![m].role = "master",
                          ![s].drivenBy = m, ![s].role = "slave",
                          ![s].ratio = RDiv(RFromInt(S.teeth), RFromInt(M.teeth)),
                          ![s].eff = RNorm(eta.v)]
  IN Decide(rel, hard, soft, IF hard = {} THEN {acc} ELSE {})

(* ---- worm gear mating ---- *)
\* documented friction formulas; alpha from the pressure-angle table, beta through t = tan(beta/2)
TanOf(t) == RDiv(RMul("2", t), RSub("1", RSq(t)))
WormEffWormDrives(cosA, tanB, f) == RDiv(RSub(cosA, RMul(f, tanB)), RAdd(cosA, RDiv(f, tanB)))
WormEffWheelDrives(cosA, tanB, f) == RDiv(RSub(cosA, RDiv(f, tanB)), RAdd(cosA, RMul(f, tanB)))

WormMating(obj, rel, m, s, f) ==
  LET M == obj[m]  S == obj[s]
      kindsOK == M.kind \in WormKinds /\ S.kind \in WormKinds /\ M.kind # S.kind
      fOK == f.isnum /\ ~(RGt(f.v, "1") \/ RSign(f.v) < 0)
      ac == IF kindsOK THEN EqClass(M.alpha, S.alpha) ELSE "same"
      pre == (IF ~kindsOK THEN {"TypeError"} ELSE {})
             \cup (IF ~f.isnum THEN {"TypeError"} ELSE {})
             \cup (IF f.isnum /\ ~fOK THEN {"ValueError"} ELSE {})
             \cup (IF ac = "diff" THEN {"ValueError"} ELSE {})
  IN
  IF pre # {} THEN Decide(rel, pre, IF ac = "band" THEN {"ValueError"} ELSE {}, {})
  ELSE LET
    wormDrives == M.kind = "WormGear"
    worm  == IF wormDrives THEN m ELSE s
    wheel == IF wormDrives THEN s ELSE m
    cosA  == WormRow(M.alpha).cos                     \* master's pressure angle (equal to the slave's)
    tanBm == TanOf(M.th)                              \* efficiency uses the MASTER's helix angle
    tanBw == TanOf(obj[worm].th)                      \* self-locking uses the WORM's helix angle
    ratio == IF wormDrives THEN RDiv(RFromInt(obj[wheel].teeth), RFromInt(obj[worm].teeth))
             ELSE RDiv(RFromInt(obj[worm].teeth), RFromInt(obj[wheel].teeth))
    IN
    IF RSign(tanBm) = 0 THEN {Rej("ZeroDivisionError", rel), Rej("ValueError", rel)}      \* helix 0: formula undefined
    ELSE LET
      eff == IF wormDrives THEN WormEffWormDrives(cosA, tanBm, f.v) ELSE WormEffWheelDrives(cosA, tanBm, f.v)
      thr == RMul(WormRow(obj[worm].alpha).cos, tanBw)
      slSet == IF Near(f.v, thr) THEN {"true", "false"} ELSE IF RGt(f.v, thr) THEN {"true"} ELSE {"false"}
      effNear == Near(eff, "1") \/ RLe(RAbs(eff), "1e-12")
      effOK == RSign(eff) >= 0 /\ RLe(eff, "1")
      accs == { [rel EXCEPT ![m].drives = s, ![m].role = "master", ![s].drivenBy = m, ![s].role = "slave",
                            ![s].ratio = ratio, ![s].eff = eff, ![worm].sl = sl] : sl \in slSet }
      hard == IF ~effOK /\ ~effNear THEN {"ValueError"} ELSE {}
      soft == IF effNear \/ ac = "band" THEN {"ValueError"} ELSE {}
      IN Decide(rel, hard, soft, IF hard = {} THEN accs ELSE {})

(* ---- fixed joint ---- *)
FixedJoint(obj, rel, m, s) ==
  LET M == obj[m]  S == obj[s]
      hard == (IF M.kind \notin Rotating \/ S.kind \notin Rotating \/ S.kind = "DCMotor" THEN {"TypeError"} ELSE {})
              \cup (IF m = s THEN {"ValueError"} ELSE {})
  IN Decide(rel, hard, {}, IF hard = {} THEN
            {[rel EXCEPT ![m].drives = s, ![s].drivenBy = m, ![s].ratio = "1"]} ELSE {})      \* JointKeeps: role, eff, sl untouched

(* ---- assembling a powertrain ---- *)
RECURSIVE ChainFrom(_, _, _)
\* the drives-chain starting at x, as a sequence; `fuel' bounds the walk (a cycle never terminates in the code)
ChainFrom(rel, x, fuel) == IF fuel = 0 THEN <<x>>
                           ELSE IF rel[x].drives = Null THEN <<x>>
                           ELSE <<x>> \o ChainFrom(rel, rel[x].drives, fuel - 1)
HasCycle(rel, x, n) == Len(ChainFrom(rel, x, n)) > n
NamesOf(obj, ch) == { obj[ch[i]].name : i \in 1..Len(ch) }

Assemble(obj, rel, motor, n) ==
  IF obj[motor].kind # "DCMotor" THEN [t |-> "raise", err |-> "TypeError"]
  ELSE IF rel[motor].drives = Null THEN [t |-> "raise", err |-> "ValueError"]
  ELSE IF HasCycle(rel, motor, n) THEN [t |-> "diverges", err |-> ""]                 \* observation O1, outside C20
  ELSE LET ch == ChainFrom(rel, motor, n) IN
       IF Cardinality(NamesOf(obj, ch)) # Len(ch) THEN [t |-> "raise", err |-> "NameError"]
       ELSE [t |-> "ok", err |-> "", elements |-> ch,
             selfLocking |-> \E i \in 1..Len(ch) : obj[ch[i]].kind = "WormGear" /\ rel[ch[i]].sl = "true"]

(* ---- invariants of every reachable relation state (C10) ---- *)
\* for every link written by an *accepted* mating call the slave's record is consistent
RelSane(obj, rel) == \A x \in DOMAIN rel :
  /\ (rel[x].ratio # Null => RSign(rel[x].ratio) > 0)
  /\ RSign(rel[x].eff) >= 0 /\ RLe(rel[x].eff, "1")
  /\ (rel[x].drives # Null => rel[x].drives # x)
  /\ (obj[x].kind = "DCMotor" => rel[x].drivenBy = Null)
  /\ (rel[x].role = "slave" => rel[x].drivenBy # Null /\ rel[x].ratio # Null)
  /\ (rel[x].role = "master" => rel[x].drives # Null)
=============================================================================
