------------------------------ MODULE LockAbs ------------------------------
(***************************************************************************)
(* Sign abstraction of the self-locking machine (C13).  Every real-valued  *)
(* quantity the lock decision reads is replaced by its SIGN ("-1","0","1" - *)
(* rationals, so the very operator SolverOps!LockBranch used by the design *)
(* model and by trace validation is evaluated here).  The state space is   *)
(* finite, so TLC's exhaustive exploration covers ALL real parameter       *)
(* values, loads, duty-cycle histories and time steps at design level.     *)
(*                                                                         *)
(* One step = one computed instant.  The environment (load, inertia,       *)
(* control rules) chooses freely: the sign of the advanced motor speed w   *)
(* (forced to 0 if the previous instant was held: speed and acceleration   *)
(* were zero), the duty cycle applied at this instant, the sign of the     *)
(* motor's net torque and of the acceleration computed at this instant.    *)
(***************************************************************************)
EXTENDS SolverOps

Signs == {"-1", "0", "1"}
VARIABLES sl,      \* the chain contains a worm mating flagged self-locking (constant)
          kind,    \* "start": a run from time 0 is about to compute its first instant; "inst": the newest instant is recorded
          lk,      \* the solver's lock bit
          pwm,     \* sign of the motor's duty cycle (attribute before the run / recorded at the newest instant)
          tq,      \* sign of the motor's net torque attribute ("null" on a powertrain never simulated)
          spd,     \* "start": sign of the initial speed; "inst": sign of the recorded motor speed
          acc,     \* sign of the recorded acceleration
          moved,   \* did the position change between the previous and the newest instant
          prevLk, inForce,  \* history variables: lock bit before, and duty-cycle sign read by, the newest decision
          edited,  \* the user re-indexed the output (set another speed) since the newest instant was recorded: `spd' is then the
                   \* LIVE speed the next step starts from, no longer the recorded one
          prevEdited        \* history variable: was the newest instant integrated from a state the user had edited
avars == <<sl, kind, lk, pwm, tq, spd, acc, moved, prevLk, inForce, edited, prevEdited>>

AInit == /\ sl \in BOOLEAN /\ kind = "start" /\ lk = FALSE /\ pwm \in Signs /\ tq = SNull
         /\ spd \in Signs /\ acc = "0" /\ moved = FALSE /\ prevLk = FALSE /\ inForce = "0"
         /\ edited = FALSE /\ prevEdited = FALSE

\* one computed instant: w = sign of the advanced motor speed, then the environment's choices for this instant
Instant(w, p, t, a) ==
  LET against == (RSign(pwm) > 0 /\ RSign(w) < 0) \/ (RSign(pwm) < 0 /\ RSign(w) > 0)
      nlk == LockBranch(sl, lk, pwm, tq, against) IN
  /\ lk' = nlk /\ kind' = "inst"
  /\ spd' = IF nlk THEN "0" ELSE w
  /\ acc' = IF nlk THEN "0" ELSE a
  /\ moved' = (kind = "inst" /\ RSign(w) # 0)
  /\ pwm' = p /\ tq' = t
  /\ prevLk' = lk /\ inForce' = pwm
  /\ edited' = FALSE /\ prevEdited' = edited
  /\ UNCHANGED sl

\* the advanced speed w = spd + acc dt : any sign, except that 0 + 0 dt = 0 and equal signs cannot cancel
Advanced == { w \in Signs : /\ (acc = "0" => w = spd) /\ (spd = "0" => w = acc) /\ (spd = acc => w = spd) }
First == kind = "start" /\ \E p \in Signs, t \in Signs, a \in Signs : Instant(spd, p, t, a)     \* instant 0: w = the initial speed
Later == kind = "inst" /\ \E w \in Advanced, p \in Signs, t \in Signs, a \in Signs : Instant(w, p, t, a)
\* Powertrain.reset + re-applied initial conditions + a fresh run (same or new Solver): the lock bit is cleared, the motor's
\* duty cycle and net torque are the FIRST RECORDED ones (any sign), the initial speed is whatever the user re-applies
Fresh == /\ kind = "inst" /\ kind' = "start" /\ lk' = FALSE
         /\ pwm' \in Signs /\ tq' \in Signs /\ spd' \in Signs /\ acc' = "0"       \* (the restored acceleration is not read by instant 0)
         /\ moved' = FALSE /\ prevLk' = FALSE /\ inForce' = "0" /\ edited' = FALSE /\ prevEdited' = FALSE /\ UNCHANGED sl
\* between two calls the USER may assign another duty cycle to the motor, or re-index the output (another position / speed); the
\* next decision reads what the user left
UserPwm == /\ pwm' \in Signs \ {pwm} /\ UNCHANGED <<sl, kind, lk, tq, spd, acc, moved, prevLk, inForce, edited, prevEdited>>
UserSpd == /\ spd' \in Signs /\ edited' = TRUE /\ UNCHANGED <<sl, kind, lk, pwm, tq, acc, moved, prevLk, inForce, prevEdited>>
ANext == First \/ Later \/ Fresh \/ UserPwm \/ UserSpd
ASpec == AInit /\ [][ANext]_avars

\* C13 as stated: the recorded motor speed never has the sign opposite to the duty cycle in force; zero duty => zero speed
SafeSign == (sl /\ kind = "inst" /\ ~edited) => SignSafe(inForce, spd)
\* while held: speed and acceleration zero; between two held instants the position does not move
HeldStill == (kind = "inst" /\ lk /\ ~edited) => spd = "0" /\ acc = "0"
\* (unless the user gave the held output a speed between the two: it then moves by that speed x dt before it is clamped again)
HeldPos == (kind = "inst" /\ prevLk /\ lk /\ ~prevEdited) => ~moved
\* motion resumes only when the motor's net torque points in the commanded direction
ResumeOnlyWhenDriven == [][ (kind = "inst" /\ kind' = "inst" /\ lk /\ ~lk') => (tq # SNull /\ RSign(tq) # 0 /\ RSign(tq) = RSign(pwm)) ]_avars
\* a powertrain without a self-locking mating is never clamped
NeverClampedWithoutSL == ~sl => ~lk
=============================================================================
