----------------------------- MODULE Trace_Units -----------------------------
(***************************************************************************)
(* Code -> spec validation for C05: every recorded conversion / comparison *)
(* performed by the real gearpy quantity classes must be explained by      *)
(* Units!Conv and Units!CmpClass.  One trace = one event.                  *)
(***************************************************************************)
EXTENDS Units, TraceLib, Json, IOUtils

Traces == ndJsonDeserialize(IOEnv.TRACE_FILE)
VARIABLE tid
vars == <<tid>>

EpsConv == "1e-13"      \* two roundings + rounded table constants: a few ulp
EpsBack == "2e-15"      \* there-and-back: 8 ulp

Nums(S) == \A x \in S : RIsNum(x)

ToFails(e) ==
  LET exp == Conv(e.v, e.kind, e.u1, e.u2) IN
  IF ~e.out.ok THEN {"ConvRaised_" \o e.out.err}
  ELSE IF ~Nums({e.out.val, e.inplace.val, e.back, e.src_after.val}) THEN {"ConvFinite"}
  ELSE Failing({
    <<"ConvValue",       CloseS(e.out.val, exp, EpsConv, RAbs(exp))>>,
    <<"ConvUnitLabel",   e.out.unit = e.u2>>,
    <<"ConvKind",        e.out.cls = e.kind>>,
    <<"ConvNewObject",   ~e.out.same_obj>>,
    <<"ConvSourceKept",  REq(e.src_after.val, e.v) /\ e.src_after.unit = e.u1>>,
    <<"InplaceOk",       e.inplace.ok>>,
    <<"InplaceEqCopy",   e.inplace.ok => (REq(e.inplace.val, e.out.val) /\ e.inplace.unit = e.out.unit)>>,
    <<"InplaceSameObj",  e.inplace.ok => e.inplace.same_obj>>,
    <<"InplaceKind",     e.inplace.ok => e.inplace.cls = e.kind>>,
    <<"ThereAndBack",    CloseS(e.back, e.v, EpsBack, RAbs(e.v))>> })

\* comparison: a in u1 (kind k1) against b in u2 (kind k2), both operand orders
CmpFails(e) ==
  LET A == SI(e.a, e.k1, e.u1)  B == SI(e.b, e.k2, e.u2)
      cls == CmpClass(A, B)
      rcls == CASE cls = "less" -> "greater" [] cls = "greater" -> "less" [] OTHER -> cls
      ops == {"eq", "ne", "lt", "le", "gt", "ge"} IN
  IF ~Comparable(e.k1, e.k2) THEN
     Failing({ <<"CmpCrossKindTypeError", ~e.res.ok /\ e.res.err = "TypeError" /\ ~e.rev.ok /\ e.rev.err = "TypeError">> })
  ELSE IF ~e.res.ok \/ ~e.rev.ok THEN {"CmpRaised"}
  ELSE IF cls = "band" THEN {}
  ELSE Failing(
       { <<"Cmp_" \o o \o "_" \o cls, e.res[o] = CmpExpected(cls)[o]>> : o \in ops } \cup
       { <<"CmpRev_" \o o \o "_" \o rcls, e.rev[o] = CmpExpected(rcls)[o]>> : o \in ops } \cup
       { <<"CmpEqSymmetric", e.res.eq = e.rev.eq>> })

\* chain: one object converted IN PLACE along a path of units u[1] -> u[2] -> ... ; after every hop its public value / unit, a COPY
\* conversion of it back to the first unit, and its comparison with a fresh object of the original value are recorded
ChainFails(e) ==
  UNION { LET h == e.hops[j]  exp == Conv(e.v, e.kind, e.u0, h.unit) IN
          IF ~h.ok THEN {"ChainRaised_" \o h.err \o "@" \o ToString(j)}
          ELSE IF ~(RIsNum(h.val) /\ RIsNum(h.back)) THEN {"ChainFinite@" \o ToString(j)}
          ELSE Failing({
            <<"ChainValue@" \o ToString(j), CloseS(h.val, exp, "1e-12", RAbs(exp))>>,
            <<"ChainUnitLabel@" \o ToString(j), h.unit_seen = h.unit>>,
            <<"ChainBackToFirstUnit@" \o ToString(j), CloseS(h.back, e.v, "1e-12", RAbs(e.v))>>,
            \* (comparisons are judged between DIFFERENT units only: in the same unit the comparison is exact by design)
            <<"ChainEqualsFreshOriginal@" \o ToString(j), h.unit # e.u0 => (h.eq_fresh /\ h.fresh_eq)>>,
            <<"ChainNotLessNotGreater@" \o ToString(j), h.unit # e.u0 => (~h.lt_fresh /\ ~h.gt_fresh)>> })
        : j \in 1..Len(e.hops) }

\* ---- calls recorded from the repository's OWN unit tests (harness/repo_units_plugin.py): one public call each ----
\* rto: q.to(u2, inplace) on a quantity of value v in u1; `after' is the receiver re-read after the call
RtoFails(e) ==
  LET exp == Conv(e.v, e.kind, e.u1, e.u2) IN
  IF ~e.out.ok THEN {"RConvRaised_" \o e.out.err}
  ELSE IF ~Nums({e.out.val, e.after.val}) THEN {"RConvFinite"}
  ELSE Failing({
    <<"RConvValue",          CloseS(e.out.val, exp, EpsConv, RAbs(exp))>>,
    <<"RConvUnitLabel",      e.out.unit = e.u2>>,
    <<"RConvKind",           e.out.cls = e.kind>>,
    <<"RConvInplaceSameObj", e.inplace => e.out.same_obj>>,
    <<"RConvCopyNewObject",  ~e.inplace => ~e.out.same_obj>>,
    <<"RConvReceiverAfter",  IF e.inplace THEN REq(e.after.val, e.out.val) /\ e.after.unit = e.u2
                                          ELSE REq(e.after.val, e.v) /\ e.after.unit = e.u1>> })

\* rcmp: one comparison  a <op> b ; in one and the same unit the comparison is exact by design
RcmpFails(e) ==
  LET A == SI(e.a, e.k1, e.u1)  B == SI(e.b, e.k2, e.u2)
      cls == IF e.u1 = e.u2 THEN (IF REq(e.a, e.b) THEN "same" ELSE IF RLt(e.a, e.b) THEN "less" ELSE "greater")
             ELSE CmpClass(A, B) IN
  IF ~Comparable(e.k1, e.k2) THEN Failing({ <<"RCmpCrossKindTypeError", ~e.res.ok /\ e.res.err = "TypeError">> })
  ELSE IF ~e.res.ok THEN {"RCmpRaised_" \o e.res.err}
  ELSE IF cls = "band" THEN {}
  ELSE Failing({ <<"RCmp_" \o e.op \o "_" \o cls, e.res.val = CmpExpected(cls)[e.op]>> })

Fails(e) == CASE e.ev = "to" -> ToFails(e) [] e.ev = "cmp" -> CmpFails(e) [] e.ev = "chain" -> ChainFails(e)
              [] e.ev = "rto" -> RtoFails(e) [] e.ev = "rcmp" -> RcmpFails(e)

Init == tid \in 1..Len(Traces)
Next == /\ tid > 0
        /\ Verdict(Traces[tid].id, Fails(Traces[tid]))
        /\ tid' = 0
Spec == Init /\ [][Next]_vars
=============================================================================
