SPECIFICATION Spec
INVARIANT BoundDt
INVARIANT BoundHalfDt
INVARIANT Halving
CHECK_DEADLOCK FALSE
