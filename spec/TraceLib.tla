------------------------------ MODULE TraceLib ------------------------------
(* Helpers shared by all trace specifications (code -> spec validation).    *)
EXTENDS Integers, Sequences, FiniteSets, TLC, BigRat

\* |z - f| <= eps * scale   (scale = condition scale of f, supplied by the caller)
CloseS(z, f, eps, scale) == RLe(RAbs(RSub(z, f)), RMul(eps, scale))
\* relative closeness with scale max(|z|,|f|)
CloseR(z, f, eps) == RLe(RAbs(RSub(z, f)), RMul(eps, RMax(RAbs(z), RAbs(f))))

RECURSIVE JoinSet(_)
JoinSet(S) == IF S = {} THEN ""
              ELSE LET x == CHOOSE x \in S : TRUE IN
                   IF S = {x} THEN x ELSE x \o "," \o JoinSet(S \ {x})

\* names of the failing clauses of a set of <<name, holds>> pairs
Failing(clauses) == { c[1] : c \in { c \in clauses : ~c[2] } }

\* one verdict line per validated trace / event:  V|<id>|ACCEPT   or   V|<id>|FAIL|<clauses>
Verdict(id, fails) == IF fails = {} THEN PrintT("V|" \o id \o "|ACCEPT")
                      ELSE PrintT("V|" \o id \o "|FAIL|" \o JoinSet(fails))
=============================================================================
