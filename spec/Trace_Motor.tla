----------------------------- MODULE Trace_Motor -----------------------------
(* Code -> spec validation for C08: recorded compute_torque / compute_electric_current calls. *)
EXTENDS Motor, TraceLib, Json, IOUtils
Traces == ndJsonDeserialize(IOEnv.TRACE_FILE)
VARIABLE tid

Eps  == "1e-9"
Band == "1e-10"     \* relative distance from the dead-zone boundary inside which the branch taken is not judged

NearBoundary(m, D) == HasCurrent(m) /\ LET b == DeadZone(m) IN
                      RLe(RAbs(RSub(RAbs(D), b)), RMul(Band, RMax(b, "1e-300")))
OuterTorque(m, w, D)  == RMul(TmaxD(m, D), RSub("1", RDiv(w, W0D(m, D))))
OuterCurrent(m, w, D) == IF RSign(D) > 0
                         THEN RAdd(RMul(RSub(RMul(D, m.imax), m.i0), RSub("1", RDiv(w, W0D(m, D)))), m.i0)
                         ELSE RSub(RMul(RAdd(RMul(D, m.imax), m.i0), RSub("1", RDiv(w, W0D(m, D)))), m.i0)

Fails(e) ==
  LET m == e.m  w == e.w  D == e.D  near == NearBoundary(m, D) IN
  IF ~e.tq.ok THEN {"TorqueRaised_" \o e.tq.err}
  ELSE IF ~RIsNum(e.tq.val) THEN {"TorqueNonFinite"}
  ELSE Failing({
    <<"TorqueValue", IF near /\ RSign(D) # 0 THEN CloseS(e.tq.val, OuterTorque(m, w, D), Eps, TorqueScale(m, w, D))
                     ELSE CloseS(e.tq.val, Torque(m, w, D), Eps, TorqueScale(m, w, D))>>,
    <<"TorqueExactlyZeroInDeadZone", (HasCurrent(m) /\ InDead(m, D) /\ ~near) => RSign(e.tq.val) = 0>> })
  \cup
  (IF ~HasCurrent(m) THEN {}
   ELSE IF ~e.cur.ok THEN {"CurrentRaised_" \o e.cur.err}
   ELSE IF ~RIsNum(e.cur.val) THEN {"CurrentNonFinite"}
   ELSE Failing({
    <<"CurrentValue", IF (near \/ ~InDead(m, D)) /\ RSign(D) # 0
                      THEN CloseS(e.cur.val, OuterCurrent(m, w, D), Eps, CurrentScale(m, w, D))
                      ELSE CloseS(e.cur.val, RMul(D, m.imax), Eps, m.imax)>>,
    <<"CurrentFromRecordedTorque", (~near /\ ~InDead(m, D)) =>
                      CloseS(e.cur.val, CurrentFromTorque(m, e.tq.val, D), Eps, CurrentScale(m, w, D))>> }))

Init == tid \in 1..Len(Traces)
Next == tid > 0 /\ Verdict(Traces[tid].id, Fails(Traces[tid])) /\ tid' = 0
=============================================================================
