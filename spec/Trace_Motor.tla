----------------------------- MODULE Trace_Motor -----------------------------
(* Code -> spec validation for C08: recorded compute_torque / compute_electric_current calls. *)
EXTENDS Motor, TraceLib, Json, IOUtils
Traces == ndJsonDeserialize(IOEnv.TRACE_FILE)
VARIABLE tid

Eps  == "1e-9"
Band == "1e-10"     \* relative distance from the dead-zone boundary inside which the branch taken is not judged

NearBoundary(m, D) == HasCurrent(m) /\ LET b == DeadZone(m) IN
                      RLe(RAbs(RSub(RAbs(D), b)), RMul(Band, RMax(b, "1e-300")))
OuterTorque(m, w, D)  == RMul(TmaxD(m, D), RSub("1", RDiv(w, W0D(m, D))))
OuterCurrent(m, w, D) == IF RSign(D) > 0
                         THEN RAdd(RMul(RSub(RMul(D, m.imax), m.i0), RSub("1", RDiv(w, W0D(m, D)))), m.i0)
                         ELSE RSub(RMul(RAdd(RMul(D, m.imax), m.i0), RSub("1", RDiv(w, W0D(m, D)))), m.i0)

Fails(e) ==
  LET m == e.m  w == e.w  D == e.D  near == NearBoundary(m, D) IN
  IF ~e.tq.ok THEN {"TorqueRaised_" \o e.tq.err}
  ELSE IF ~RIsNum(e.tq.val) THEN {"TorqueNonFinite"}
  ELSE Failing({
    <<"TorqueValue", IF near /\ RSign(D) # 0 THEN CloseS(e.tq.val, OuterTorque(m, w, D), Eps, TorqueScale(m, w, D))
                     ELSE CloseS(e.tq.val, Torque(m, w, D), Eps, TorqueScale(m, w, D))>>,
    <<"TorqueExactlyZeroInDeadZone", (HasCurrent(m) /\ InDead(m, D) /\ ~near) => RSign(e.tq.val) = 0>> })
  \cup
  (IF ~HasCurrent(m) THEN {}
   ELSE IF ~e.cur.ok THEN {"CurrentRaised_" \o e.cur.err}
   ELSE IF ~RIsNum(e.cur.val) THEN {"CurrentNonFinite"}
   ELSE Failing({
    <<"CurrentValue", IF (near \/ ~InDead(m, D)) /\ RSign(D) # 0
                      THEN CloseS(e.cur.val, OuterCurrent(m, w, D), Eps, CurrentScale(m, w, D))
                      ELSE CloseS(e.cur.val, RMul(D, m.imax), Eps, m.imax)>>,
    <<"CurrentFromRecordedTorque", (~near /\ ~InDead(m, D)) =>
                      CloseS(e.cur.val, CurrentFromTorque(m, e.tq.val, D), Eps, CurrentScale(m, w, D))>> }))

(* ---- growth beyond C08: dc_motor_characteristics_animation.  Every frame of the animation is read back from the figure: the   *)
(* marker is the recorded (speed, driving torque) / (current, driving torque) of that instant, the line is the characteristic   *)
(* at that instant's recorded duty cycle, drawn between the padded extremes.  All numbers SI.  Reported as notes.               *)
\* anim event: m, pad, ts / tc (which panels were requested), frames = sequence of [D, w, T, I, ts = <<x1, x2, y1, y2, px, py>>, tc = same]
CurveOfCurrent(m, I, D) == IF InDead(m, D) THEN "0"
                           ELSE IF RSign(D) > 0 THEN RMul(RDiv(m.Tmax, RSub(m.imax, m.i0)), RSub(I, m.i0))
                           ELSE RMul(RDiv(m.Tmax, RSub(m.imax, m.i0)), RAdd(I, m.i0))
AnimFails(e) ==
  IF ~e.ok THEN {"AnimationRaised_" \o e.err}
  ELSE LET m == e.m  k == RAdd("1", e.pad) IN
  UNION {
    LET f == e.frames[j]  near == NearBoundary(m, f.D) IN
    (IF ~e.ts THEN {} ELSE
      LET p == f.ts  xe == RMul(k, m.w0) IN
      Failing({ <<"AnimSpeedMarker", CloseS(p[5], f.w, Eps, RAbs(f.w)) /\ CloseS(p[6], f.T, Eps, RAbs(f.T))>>,
                <<"AnimSpeedAbscissae", CloseS(p[1], RNeg(xe), Eps, xe) /\ CloseS(p[2], xe, Eps, xe)>>,
                <<"AnimSpeedCurve", near \/ (/\ CloseS(p[3], Torque(m, RNeg(xe), f.D), Eps, TorqueScale(m, xe, f.D))
                                               /\ CloseS(p[4], Torque(m, xe, f.D), Eps, TorqueScale(m, xe, f.D)))>> }))
    \cup
    (IF ~e.tc THEN {} ELSE
      LET p == f.tc  xe == RMul(k, m.imax)  sc == RMul(RDiv(m.Tmax, RSub(m.imax, m.i0)), RAdd(xe, m.i0)) IN
      Failing({ <<"AnimCurrentMarker", CloseS(p[5], f.I, Eps, RAbs(f.I)) /\ CloseS(p[6], f.T, Eps, RAbs(f.T))>>,
                <<"AnimCurrentAbscissae", CloseS(p[1], RNeg(xe), Eps, xe) /\ CloseS(p[2], xe, Eps, xe)>>,
                <<"AnimCurrentCurve", near \/ (/\ CloseS(p[3], CurveOfCurrent(m, RNeg(xe), f.D), Eps, sc)
                                                 /\ CloseS(p[4], CurveOfCurrent(m, xe, f.D), Eps, sc))>> }))
    : j \in 1..Len(e.frames) }

AllFails(e) == IF "frames" \in DOMAIN e THEN AnimFails(e) ELSE Fails(e)
Init == tid \in 1..Len(Traces)
Next == tid > 0 /\ Verdict(Traces[tid].id, AllFails(Traces[tid])) /\ tid' = 0
=============================================================================
