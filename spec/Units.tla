------------------------------- MODULE Units -------------------------------
(***************************************************************************)
(* Quantity kinds, units and their SI definitions, written from the SI     *)
(* base definitions only (the implementation has thirteen literal tables;  *)
(* nothing here is copied from them).  Compound unit names are *built*     *)
(* from their parts ("kgf" \o "cm", "g" \o "dm" \o "^2", "deg" \o "/" \o   *)
(* "min") and their factors *derived* from the parts' factors.             *)
(*                                                                         *)
(* A unit's factor to SI is  q * Pi^p  with q rational and p \in {0,1}.    *)
(* Pi enters conversions only between units of different p (rad <-> deg);  *)
(* there a 50-digit rational is used (relative error < 1e-49, far below    *)
(* every tolerance in the framework).                                      *)
(***************************************************************************)
EXTENDS Integers, Sequences, FiniteSets, TLC, BigRat

Pi == "3.14159265358979323846264338327950288419716939937510"

(* ---- base units -------------------------------------------------------- *)
U(q, p) == [q |-> q, p |-> p]

AngleU  == [rad |-> U("1", 0), deg |-> U("1/180", 1), arcmin |-> U("1/10800", 1),
            arcsec |-> U("1/648000", 1), rot |-> U("2", 1)]
TimeU   == [sec |-> U("1", 0), min |-> U("60", 0), hour |-> U("3600", 0), ms |-> U("1/1000", 0)]
LengthU == [m |-> U("1", 0), dm |-> U("1/10", 0), cm |-> U("1/100", 0), mm |-> U("1/1000", 0)]
Gn      == "9.80665"                       \* standard gravity, exact by definition
ForceU  == [N |-> U("1", 0), mN |-> U("1/1000", 0), kN |-> U("1000", 0),
            kgf |-> U(Gn, 0), gf |-> U(RDiv(Gn, "1000"), 0)]
MassU   == [kg |-> U("1", 0), g |-> U("1/1000", 0)]
StressU == [Pa |-> U("1", 0), kPa |-> U("1000", 0), MPa |-> U("1000000", 0), GPa |-> U("1000000000", 0)]
CurrentU == [A |-> U("1", 0), mA |-> U("1/1000", 0), uA |-> U("1/1000000", 0)]

UMul(a, b) == U(RMul(a.q, b.q), a.p + b.p)
UDiv(a, b) == U(RDiv(a.q, b.q), a.p - b.p)

(* ---- derived (compound) units ------------------------------------------ *)
Merge(f, g) == [x \in (DOMAIN f) \cup (DOMAIN g) |-> IF x \in DOMAIN f THEN f[x] ELSE g[x]]
One(name, u) == [x \in {name} |-> u]

RECURSIVE MergeAll(_)
MergeAll(S) == IF S = {} THEN [x \in {} |-> U("1", 0)]
               ELSE LET f == CHOOSE f \in S : TRUE IN Merge(f, MergeAll(S \ {f}))

\* per-time names used in angular speed units: rad/s rad/min rad/h, rps rpm rph
PerTime == [s |-> TimeU.sec, min |-> TimeU.min, h |-> TimeU.hour]
RpName  == [s |-> "rps", min |-> "rpm", h |-> "rph"]

SpeedU == MergeAll(
    { One(a \o "/" \o t, UDiv(AngleU[a], PerTime[t])) : a \in {"rad", "deg"}, t \in DOMAIN PerTime }
    \cup { One(RpName[t], UDiv(AngleU.rot, PerTime[t])) : t \in DOMAIN PerTime })
AccelU == MergeAll({ One(a \o "/s^2", AngleU[a]) : a \in {"rad", "deg", "rot"} })
SurfaceU == MergeAll({ One(l \o "^2", UMul(LengthU[l], LengthU[l])) : l \in DOMAIN LengthU })
InertiaU == MergeAll({ One(m \o l \o "^2", UMul(MassU[m], UMul(LengthU[l], LengthU[l]))) :
                       m \in DOMAIN MassU, l \in DOMAIN LengthU })
TorqueU == MergeAll({ One("Nm", UMul(ForceU.N, LengthU.m)) } \cup
                    { One(f \o l, UMul(ForceU[f], LengthU[l])) :
                      f \in {"mN", "kN", "kgf", "gf"}, l \in DOMAIN LengthU })

(* ---- kinds ------------------------------------------------------------- *)
Kinds == {"AngularPosition", "Angle", "AngularSpeed", "AngularAcceleration", "InertiaMoment",
          "Torque", "Time", "TimeInterval", "Length", "Surface", "Force", "Stress", "Current"}

UnitsOf(k) == CASE k \in {"AngularPosition", "Angle"} -> AngleU
                [] k = "AngularSpeed" -> SpeedU
                [] k = "AngularAcceleration" -> AccelU
                [] k = "InertiaMoment" -> InertiaU
                [] k = "Torque" -> TorqueU
                [] k \in {"Time", "TimeInterval"} -> TimeU
                [] k = "Length" -> LengthU
                [] k = "Surface" -> SurfaceU
                [] k = "Force" -> ForceU
                [] k = "Stress" -> StressU
                [] k = "Current" -> CurrentU

UnitNames(k) == DOMAIN UnitsOf(k)

SIUnit(k) == CASE k \in {"AngularPosition", "Angle"} -> "rad"
               [] k = "AngularSpeed" -> "rad/s"
               [] k = "AngularAcceleration" -> "rad/s^2"
               [] k = "InertiaMoment" -> "kgm^2"
               [] k = "Torque" -> "Nm"
               [] k \in {"Time", "TimeInterval"} -> "sec"
               [] k = "Length" -> "m"
               [] k = "Surface" -> "m^2"
               [] k = "Force" -> "N"
               [] k = "Stress" -> "Pa"
               [] k = "Current" -> "A"

\* sub-kind relation and sign constraints
Super(k) == CASE k = "Angle" -> "AngularPosition" [] k = "TimeInterval" -> "Time" [] OTHER -> k
Family(k) == Super(k)
StrictPos == {"Length", "Surface", "InertiaMoment", "TimeInterval"}
NonNeg    == {"Angle"}
SignOK(k, v) == /\ (k \in StrictPos => RSign(v) > 0)
                /\ (k \in NonNeg => RSign(v) >= 0)

(* ---- conversion -------------------------------------------------------- *)
PiPow(n) == RPow(Pi, n)
Factor(k, u) == LET x == UnitsOf(k)[u] IN RMul(x.q, PiPow(x.p))
\* value v in unit u1 expressed in unit u2
Conv(v, k, u1, u2) == LET a == UnitsOf(k)[u1]  b == UnitsOf(k)[u2]
                      IN  RMul(v, RMul(RDiv(a.q, b.q), PiPow(a.p - b.p)))
SI(v, k, u) == Conv(v, k, u, SIUnit(k))

(* ---- dimensional algebra ----------------------------------------------- *)
\* exponents over <<time, mass, length, current>>; angle is dimensionless
Dim(k) == CASE Family(k) = "AngularPosition" -> <<0, 0, 0, 0>>
            [] k = "AngularSpeed" -> <<-1, 0, 0, 0>>
            [] k = "AngularAcceleration" -> <<-2, 0, 0, 0>>
            [] k = "InertiaMoment" -> <<0, 1, 2, 0>>
            [] k = "Torque" -> <<-2, 1, 2, 0>>
            [] Family(k) = "Time" -> <<1, 0, 0, 0>>
            [] k = "Length" -> <<0, 0, 1, 0>>
            [] k = "Surface" -> <<0, 0, 2, 0>>
            [] k = "Force" -> <<-2, 1, 1, 0>>
            [] k = "Stress" -> <<-2, 1, -1, 0>>
            [] k = "Current" -> <<0, 0, 0, 1>>
            [] k = "Number" -> <<0, 0, 0, 0>>
DAdd(a, b) == [i \in 1..4 |-> a[i] + b[i]]
DSub(a, b) == [i \in 1..4 |-> a[i] - b[i]]
AllKinds == Kinds \cup {"Number"}
Zero4 == <<0, 0, 0, 0>>

\* the set of result kinds dimensional analysis allows for  k1 op k2  (op in + - * /)
Dictated(op, k1, k2) ==
  IF op \in {"+", "-"} THEN
     IF k1 = "Number" \/ k2 = "Number" \/ Family(k1) # Family(k2) THEN {}
     ELSE IF k1 = k2 THEN {k1} ELSE {Family(k1)}
  ELSE LET d == IF op = "*" THEN DAdd(Dim(k1), Dim(k2)) ELSE DSub(Dim(k1), Dim(k2)) IN
     IF k1 = "Number" /\ k2 = "Number" THEN {}
     ELSE IF op = "/" /\ k1 # "Number" /\ k2 # "Number" /\ Family(k1) = Family(k2) THEN {"Number"}
     ELSE IF op = "*" /\ k2 = "Number" THEN {k1, Family(k1)}
     ELSE IF op = "*" /\ k1 = "Number" THEN {k2, Family(k2)}
     ELSE IF op = "/" /\ k2 = "Number" THEN {k1, Family(k1)}
     ELSE IF k1 = "Number" THEN {}                \* number / quantity: no kind for inverse dimensions
     ELSE IF d = Zero4 THEN {"AngularPosition", "Angle"}     \* speed * time
     ELSE IF d = <<1, 0, 0, 0>> THEN {}           \* a product is never a *time* here (no such rule)
     ELSE { k \in Kinds : Dim(k) = d /\ Family(k) # "AngularPosition" /\ Family(k) # "Time" }

\* the nine rules the documentation names: these must *return*, not raise TypeError
MustReturn(op, k1, k2) ==
  \/ op = "*" /\ {k1, k2} = {"AngularSpeed", "Time"}
  \/ op = "*" /\ k1 = "AngularSpeed" /\ k2 = "TimeInterval"          \* (a TimeInterval on the *left* of a speed or
  \/ op = "*" /\ {k1, k2} = {"AngularAcceleration", "Time"}         \*  acceleration raises TypeError in the code: allowed,
  \/ op = "*" /\ k1 = "AngularAcceleration" /\ k2 = "TimeInterval"   \*  the property permits TypeError anywhere; observation O6)
  \/ op = "/" /\ k1 = "Torque" /\ k2 = "InertiaMoment"
  \/ op = "/" /\ k1 = "Torque" /\ k2 = "Length"
  \/ op = "/" /\ k1 = "Force" /\ k2 = "Surface"
  \/ op = "*" /\ k1 = "Length" /\ k2 = "Length"
  \/ op = "/" /\ k1 \in Kinds /\ k1 = k2
  \/ op \in {"*", "/"} /\ k1 \in Kinds /\ k2 = "Number"
  \/ op = "*" /\ k1 = "Number" /\ k2 \in Kinds
  \/ op \in {"+", "-"} /\ k1 \in Kinds /\ k1 = k2

(* ---- comparison -------------------------------------------------------- *)
\* what each operator must answer for SI magnitudes a, b:  "judged" outside the rounding band
CmpRelGap  == "1e-12"     \* differ by more than this (relative)  => ordered as magnitudes (the implementation tolerates 1e-14; rounding is ~1e-16)
CmpRelSame == "1e-15"     \* differ by no more than this (relative) => the same magnitude
CmpClass(a, b) == LET m == RMax(RAbs(a), RAbs(b))  d == RAbs(RSub(a, b)) IN
                  IF RLe(d, RMul(CmpRelSame, m)) THEN "same"
                  ELSE IF RGt(d, RMul(CmpRelGap, m)) THEN (IF RLt(a, b) THEN "less" ELSE "greater")
                  ELSE "band"
CmpExpected(cls) == CASE cls = "same"    -> [eq |-> TRUE,  ne |-> FALSE, lt |-> FALSE, le |-> TRUE,  gt |-> FALSE, ge |-> TRUE]
                      [] cls = "less"    -> [eq |-> FALSE, ne |-> TRUE,  lt |-> TRUE,  le |-> TRUE,  gt |-> FALSE, ge |-> FALSE]
                      [] cls = "greater" -> [eq |-> FALSE, ne |-> TRUE,  lt |-> FALSE, le |-> FALSE, gt |-> TRUE,  ge |-> TRUE]
Comparable(k1, k2) == k1 \in Kinds /\ k2 \in Kinds /\ Family(k1) = Family(k2)

(* ---- sanity of this table itself (checked by MC_Units) ------------------ *)
TableOK ==
  /\ \A k \in Kinds : SIUnit(k) \in UnitNames(k) /\ UnitsOf(k)[SIUnit(k)] = U("1", 0)
  /\ \A k \in Kinds : \A u \in UnitNames(k) : RSign(UnitsOf(k)[u].q) > 0 /\ UnitsOf(k)[u].p \in {0, 1}
  /\ Cardinality(UnitNames("AngularSpeed")) = 9 /\ Cardinality(UnitNames("Torque")) = 17
  /\ Cardinality(UnitNames("InertiaMoment")) = 8 /\ Cardinality(UnitNames("AngularAcceleration")) = 3
  /\ TorqueU["kNmm"] = TorqueU["Nm"]
  /\ TorqueU["kgfcm"].q = "196133/2000000"
  /\ InertiaU["gcm^2"].q = "1/10000000"
  /\ SpeedU["rpm"] = U("1/30", 1)
  /\ Conv("1", "AngularSpeed", "rps", "rpm") = "60"
  /\ Conv("90", "Angle", "deg", "rot") = "1/4"
  /\ Conv("1", "Force", "kgf", "N") = "196133/20000"
  /\ \A k \in Kinds : \A u1 \in UnitNames(k), u2 \in UnitNames(k) :
        /\ Conv(Conv("7/3", k, u1, u2), k, u2, u1) = "7/3"
        /\ SI(Conv("7/3", k, u1, u2), k, u2) = SI("7/3", k, u1)
=============================================================================
