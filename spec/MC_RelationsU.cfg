INIT Init
NEXT Next
CONSTANTS
  MaxCalls = 0
  Objs <- AllObjs
CHECK_DEADLOCK FALSE
