
