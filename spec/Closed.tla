------------------------------- MODULE Closed -------------------------------
(***************************************************************************)
(* C04: for a DC motor driving a constant load at constant duty cycle the  *)
(* equation of motion of the output element is linear,                     *)
(*        Jeq w' = A - B w ,                                               *)
(* with closed form  w(t) = winf + (w0 - winf) e^{-kt},                    *)
(*                   th(t) = winf t + (w0 - winf)(1 - e^{-kt})/k ,         *)
(* k = B/Jeq, winf = A/B.  The solver's scheme (speed first, then position *)
(* with the advanced speed) stays within  C dt  of it:                     *)
(*   |w_n - w(t_n)|   <= 1/2 k |w0 - winf| dt                              *)
(*   |th_n - th(t_n)| <= 3/2   |w0 - winf| dt          for k dt <= 0.2,    *)
(* and the error at a fixed time halves with dt (ratio in [1.6, 2.6]).     *)
(* e^{-x} is evaluated by its Taylor polynomial of degree 40 (remainder    *)
(* < 1e-16 for x <= 6: far below every bound used here).                   *)
(***************************************************************************)
EXTENDS SolverOps

RECURSIVE ExpSum(_, _, _, _)
\* sum_{j=i}^{n} term_j with term_j = term_{j-1} * (-x)/j
ExpSum(x, term, i, n) == IF i > n THEN "0" ELSE RAdd(term, ExpSum(x, RDiv(RMul(term, RNeg(x)), RFromInt(i + 1)), i + 1, n))
\* e^{-x}, 0 <= x <= 6.  The argument is first rounded to 30 decimal places (changes the value by < 1e-30) so that
\* the forty powers stay small when x comes from recorded floats with 2^-k denominators.
\* Evaluated by the BigRat override RExpNeg (40 decimal places); spec/RatLaws.tla checks at setup that it agrees with the
\* Taylor partial sums ExpSum above to 1e-30 on a grid, so the definition of record remains the TLA+ one.
ExpNegRef(x) == ExpSum(RRoundDec(x, 30), "1", 0, 40)
ExpNeg(x) == RExpNeg(RRoundDec(x, 30), 40)

\* efficiency and ratio products along the whole chain
RECURSIVE EffProdTo(_, _)
EffProdTo(ch, i) == IF i = 1 THEN "1" ELSE RMul(EffProdTo(ch, i - 1), Eff(ch, i))

\* linear coefficients at the output element for duty cycle D and constant load L
Lin(ch, D, L) ==
  LET m == MotorOf(ch)
      rp == RatioProd(ch, 1)  ep == EffProdTo(ch, N(ch))
      tmax == IF HasCurrent(m) THEN TmaxD(m, D) ELSE m.Tmax
      w0d  == IF HasCurrent(m) THEN W0D(m, D) ELSE m.w0
      A == RSub(RMul(RMul(tmax, ep), rp), L)
      B == RDiv(RMul(RMul(tmax, ep), RSq(rp)), w0d)
  IN [A |-> A, B |-> B, k |-> RDiv(B, Jeq(ch)), winf |-> RDiv(A, B)]

WFrom(lin, w0, t, E)  == RAdd(lin.winf, RMul(RSub(w0, lin.winf), E))                                   \* E = e^{-kt}
ThFrom(lin, w0, t, E) == RAdd(RMul(lin.winf, t), RDiv(RMul(RSub(w0, lin.winf), RSub("1", E)), lin.k))
WExact(lin, w0, t)  == WFrom(lin, w0, t, ExpNeg(RMul(lin.k, t)))
ThExact(lin, w0, t) == ThFrom(lin, w0, t, ExpNeg(RMul(lin.k, t)))

\* the scheme itself (design level, exact): n steps from (0, w0)
RECURSIVE Scheme(_, _, _, _, _, _)
Scheme(lin, J, dt, w, th, n) == IF n = 0 THEN [w |-> w, th |-> th]
   ELSE LET w2 == RAdd(w, RMul(RDiv(RSub(lin.A, RMul(lin.B, w)), J), dt)) IN Scheme(lin, J, dt, w2, RAdd(th, RMul(w2, dt)), n - 1)

\* error bounds at step n of a run with step dt (slack: additive rounding allowance `fl')
SpdBoundOK(lin, w0, dt, n, wn, fl) ==
   RLe(RAbs(RSub(wn, WExact(lin, w0, RMul(RFromInt(n), dt)))),
       RAdd(RMul(RMul("1/2", RMul(lin.k, RAbs(RSub(w0, lin.winf)))), dt), fl))
PosBoundOK(lin, w0, dt, n, thn, fl) ==
   RLe(RAbs(RSub(thn, ThExact(lin, w0, RMul(RFromInt(n), dt)))),
       RAdd(RMul(RMul("3/2", RAbs(RSub(w0, lin.winf))), dt), fl))
\* halving: e1 = |error| with step dt, e2 with dt/2 at the same time
HalvingOK(e1, e2, floor) == RLe(e1, floor) \/ (RLe(RMul("1.6", e2), e1) /\ RLe(e1, RMul("2.6", e2)))
=============================================================================
