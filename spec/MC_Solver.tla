----------------------------- MODULE MC_Solver -----------------------------
(* Exhaustive configuration of Solver.tla over a family of small exact instances. *)
EXTENDS Solver

A20r == Rad("20")
El(kind, J, rtype, teeth, arg, th, alpha) ==
   [kind |-> kind, J |-> J, rtype |-> rtype, teeth |-> teeth, arg |-> arg, th |-> th, alpha |-> alpha, hasCurrent |-> FALSE]
Mot(J, Tmax, w0, i0, imax) ==
   [kind |-> "DCMotor", J |-> J, rtype |-> "none", teeth |-> 0, arg |-> "1", th |-> "0", alpha |-> SNull,
    Tmax |-> Tmax, w0 |-> w0, i0 |-> i0, imax |-> imax, hasCurrent |-> i0 # SNull]
G(J, rtype, teeth, arg) == El("SpurGear", J, rtype, teeth, arg, "0", SNull)

MotorA == Mot("1", "2", "16", SNull, SNull)                 \* without current data
MotorB == Mot("1", "2", "16", "1/5", "2")                   \* with current data (dead zone |D| <= 1/10)
ChainsFor(m) == {
  << m, G("2", "joint", 10, "1") >>,
  << m, G("1", "joint", 10, "1"), G("4", "gear", 20, "1/2") >>,
  << m, El("Flywheel", "1", "joint", 0, "1", "0", SNull), G("3", "joint", 12, "1"), G("2", "gear", 36, "9/10"), G("1", "gear", 18, "1") >>,
  \* self-locking worm stage: 1 start, tan(beta/2) = 1/20, alpha = 20 deg, friction 2/5 (> cos(alpha) tan(beta) = 0.094)
  << m, El("WormGear", "1", "joint", 1, "1", "1/20", A20r), El("WormWheel", "8", "worm", 20, "2/5", "1/20", A20r) >>,
  \* the same stage, not self-locking (friction 1/20)
  << m, El("WormGear", "1", "joint", 1, "1", "1/20", A20r), El("WormWheel", "8", "worm", 20, "1/20", "1/20", A20r) >> }
Chains == ChainsFor(MotorA) \cup ChainsFor(MotorB)

Ld(c0, c1, c2, c3, ts, cs) == [c0 |-> c0, c1 |-> c1, c2 |-> c2, c3 |-> c3, ts |-> ts, cs |-> cs]
Loads == { Ld("0", "0", "0", "0", "1000", "0"), Ld("1/2", "0", "0", "0", "1000", "0"), Ld("100", "0", "0", "0", "1000", "0"),
           Ld("-3", "0", "0", "0", "1000", "0"), Ld("1/2", "1/8", "0", "0", "1000", "0"), Ld("0", "0", "1/4", "0", "1000", "0"),
           Ld("1/4", "0", "0", "0", "3/4", "50") }            \* none, small, above stall, negative, k*w, k*theta, step in t

Ru(type, start, dur, val, el, target, brake, mult, pmin, script) ==
   [type |-> type, start |-> start, dur |-> dur, val |-> val, el |-> el, target |-> target, brake |-> brake, mult |-> mult, pmin |-> pmin, script |-> script]
Const(start, dur, val) == Ru("const", start, dur, val, 1, "0", "0", "0", CNull, <<>>)
Ctrls == { <<>>,                                                          \* control object without rules: default 1
           << Const("0", "1", "0") >>,                                     \* duty cycle 0 from instant 0
           << Const("1/2", "1/2", "-1") >>,
           << Const("0", "1/2", "1/2"), Const("3/4", "1", "5") >>,          \* disjoint windows; 5 is clipped
           << Const("0", "1", "1/2"), Const("1/2", "1", "-1/2") >>,         \* overlapping: conflict at t = 1/2
           << Ru("custom", "0", "0", "0", 1, "0", "0", "0", CNull, <<CNull, "-7", "1/3", CNull>>) >>,
           << Ru("reach", "0", "0", "0", 1, "6", "4", "0", CNull, <<>>) >> }
NoStop == [sensor |-> "none", el |-> 1, op |-> "gt", thr |-> "0"]
Stops(n) == { NoStop, [sensor |-> "tach", el |-> 1, op |-> "gt", thr |-> "2"], [sensor |-> "enc", el |-> n, op |-> "ge", thr |-> "1/2"],
              [sensor |-> "tach", el |-> n, op |-> "lt", thr |-> "-1/100"], [sensor |-> "enc", el |-> 1, op |-> "eq", thr |-> "1000"] }

AllInstances ==
  { [ch |-> ch, ld |-> ld, ctrl |-> ct, hasCtrl |-> hc, stop |-> st, dt |-> dt, pos0 |-> "0", spd0 |-> s0] :
      ch \in Chains, ld \in Loads, ct \in Ctrls, hc \in {TRUE}, st \in {NoStop}, dt \in {"1/2", "1/4"}, s0 \in {"0", "-2"} }
  \cup { [ch |-> ch, ld |-> ld, ctrl |-> <<>>, hasCtrl |-> FALSE, stop |-> st, dt |-> "1/2", pos0 |-> "0", spd0 |-> s0] :
      ch \in Chains, ld \in Loads, st \in Stops(2), s0 \in {"0", "3"} }
\* a small slice for the quick tier
QuickInstances == { i \in AllInstances : i.ch[1] = MotorA /\ i.dt = "1/2" /\ i.spd0 \in {"0", "-2"} /\ i.ld.c2 = "0" }
\* the per-change slice: one motor, four chains (incl. both worm stages), four loads, four rule sets, no stop conditions
TinyInstances == { i \in AllInstances : /\ i.ch[1] = MotorA /\ i.dt = "1/2" /\ i.hasCtrl /\ Len(i.ch) <= 3
                                        /\ i.ld \in { Ld("0", "0", "0", "0", "1000", "0"), Ld("100", "0", "0", "0", "1000", "0"),
                                                       Ld("-3", "0", "0", "0", "1000", "0"), Ld("1/2", "1/8", "0", "0", "1000", "0") }
                                        /\ i.ctrl \in { <<>>, << Const("0", "1", "0") >>, << Const("1/2", "1/2", "-1") >>,
                                                         << Const("0", "1", "1/2"), Const("1/2", "1", "-1/2") >> } }
StopInstances == { i \in AllInstances : ~i.hasCtrl /\ i.ch[1] = MotorB /\ Len(i.ch) <= 3 /\ i.ld.c2 = "0" /\ i.ld.c3 = "0" }
RunLens == {1, 2}
NoUser == {}
\* user interventions between calls (MC_Solver_user.cfg): duty cycle 0 / reversed / a fraction; output re-indexed at rest or with a speed
UserPwmSet == {"0", "-1"}
UserStateSet == { [pos |-> "1/2", spd |-> "0"], [pos |-> "0", spd |-> "-2"] }
UserInstances == { i \in TinyInstances : i.ctrl \in { <<>>, << Const("1/2", "1/2", "-1") >> } /\ i.ld.c1 = "0" /\ i.ld.c0 # "-3" /\ i.spd0 = "0" }
=============================================================================
