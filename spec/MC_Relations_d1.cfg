SPECIFICATION Spec
CONSTANTS
  MaxCalls = 1
  Objs <- AllObjs
INVARIANT Sane
INVARIANT AssembledIsChain
PROPERTY RejectKeeps
PROPERTY PtImmutable
PROPERTY MutualAtCall
CONSTRAINT Emit
CHECK_DEADLOCK FALSE
