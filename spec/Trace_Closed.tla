---------------------------- MODULE Trace_Closed ----------------------------
(* Code -> spec validation for C04: recorded trajectories of the real solver on linear instances, at a geometric *)
(* sequence of step sizes, against the closed form (bounds at every instant, halving of the final error).        *)
EXTENDS Closed, TraceLib, Json, IOUtils
Traces == ndJsonDeserialize(IOEnv.TRACE_FILE)
VARIABLE tid

RunFails(e, lin, r, tag) ==
  LET fl == RMul("1e-9", RAdd(RAbs(e.w0), RAbs(lin.winf)))                  \* rounding allowance of the recorded floats
      flp == RMul(fl, RAdd(r.time[Len(r.time)], "1")) IN
  IF ~(\A j \in 1..Len(r.time) : RIsNum(r.time[j]) /\ RIsNum(r.spd[j]) /\ RIsNum(r.pos[j])) THEN {"ClosedNonFinite" \o tag}
  ELSE Failing({
    <<"ClosedStepWithinRange" \o tag, RLe(RMul(lin.k, r.dt), "0.2000001")>>,
    <<"ClosedHorizon" \o tag, RGe(RMul(lin.k, r.time[Len(r.time)]), "3")>>,
    <<"ClosedBounds" \o tag, \A j \in 2..Len(r.time) :
         LET t == RRoundDec(r.time[j], 30)  E == ExpNeg(RMul(RRoundDec(lin.k, 30), t)) IN
         /\ RLe(RAbs(RSub(r.spd[j], WFrom(lin, e.w0, t, E))), RAdd(RMul(RMul("1/2", RMul(lin.k, RAbs(RSub(e.w0, lin.winf)))), r.dt), fl))
         /\ RLe(RAbs(RSub(RSub(r.pos[j], r.pos[1]), ThFrom(lin, e.w0, t, E))), RAdd(RMul(RMul("3/2", RAbs(RSub(e.w0, lin.winf))), r.dt), flp))>> })

ErrW(e, lin, r) == RAbs(RSub(r.spd[Len(r.spd)], WExact(lin, e.w0, r.time[Len(r.time)])))
ErrTh(e, lin, r) == RAbs(RSub(RSub(r.pos[Len(r.pos)], r.pos[1]), ThExact(lin, e.w0, r.time[Len(r.time)])))

Fails(e) ==
  LET lin == Lin(e.elems, e.D, e.L)
      floorW == RMul("1e-6", RAdd(RAbs(e.w0), RAbs(lin.winf)))
      floorT == RMul(floorW, e.runs[1].time[Len(e.runs[1].time)]) IN
  IF RSign(lin.B) <= 0 THEN {"ClosedNotDissipative"}
  ELSE UNION { RunFails(e, lin, e.runs[i], "@" \o ToString(i)) : i \in 1..Len(e.runs) }
       \cup UNION { LET a == e.runs[i]  b == e.runs[i + 1] IN
                    IF ~(RIsNum(a.spd[Len(a.spd)]) /\ RIsNum(b.spd[Len(b.spd)])) THEN {}
                    ELSE Failing({
                      <<"ClosedSameFinalTime@" \o ToString(i), CloseR(a.time[Len(a.time)], b.time[Len(b.time)], "1e-9")>>,
                      <<"ClosedSpeedErrorHalves@" \o ToString(i), HalvingOK(ErrW(e, lin, a), ErrW(e, lin, b), floorW)>>,
                      <<"ClosedPositionErrorHalves@" \o ToString(i), HalvingOK(ErrTh(e, lin, a), ErrTh(e, lin, b), floorT)>> })
                  : i \in 1..(Len(e.runs) - 1) }

Init == tid \in 1..Len(Traces)
Next == tid > 0 /\ Verdict(Traces[tid].id, Fails(Traces[tid])) /\ tid' = 0
=============================================================================
