------------------------------ MODULE MC_Units ------------------------------
(* TLC checks the unit table's own sanity and exports it as JSON for the harness. *)
EXTENDS Units, Json

UnitList(k) == LET S == UnitNames(k) IN
   [u \in S |-> [q |-> UnitsOf(k)[u].q, p |-> UnitsOf(k)[u].p]]
Table == [k \in Kinds |-> [si |-> SIUnit(k), super |-> Super(k),
                           sign |-> IF k \in StrictPos THEN "pos" ELSE IF k \in NonNeg THEN "nonneg" ELSE "any",
                           units |-> UnitList(k)]]
Ops == {"+", "-", "*", "/"}
Algebra == { [op |-> op, k1 |-> k1, k2 |-> k2, dictated |-> Dictated(op, k1, k2), must |-> MustReturn(op, k1, k2)] :
             op \in Ops, k1 \in AllKinds, k2 \in AllKinds }

ASSUME TableOK
ASSUME \A op \in Ops, k1 \in AllKinds, k2 \in AllKinds : MustReturn(op, k1, k2) => Dictated(op, k1, k2) # {}
ASSUME PrintT("TABLE " \o ToJson(Table))
ASSUME PrintT("ALGEBRA " \o ToJson(Algebra))
ASSUME PrintT("PI " \o Pi)
=============================================================================
