SPECIFICATION ASpec
INVARIANT SafeSign
INVARIANT HeldStill
INVARIANT HeldPos
INVARIANT NeverClampedWithoutSL
PROPERTY ResumeOnlyWhenDriven
CHECK_DEADLOCK FALSE
