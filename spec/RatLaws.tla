------------------------------ MODULE RatLaws ------------------------------
(***************************************************************************)
(* Self-test of the trusted BigRat override: every operator is compared    *)
(* with a pure-TLA+ reference on <<num, den>> pairs over Integers, for all *)
(* pairs with |num| <= B, 1 <= den <= B, and the field / order laws are    *)
(* checked on all triples of a smaller grid.  Run by setup (ASSUME-only    *)
(* module: TLC evaluates the assumptions and stops).                       *)
(***************************************************************************)
EXTENDS Integers, Sequences, TLC, BigRat

B == 6
Pairs == { <<n, d>> : n \in -B..B, d \in 1..B }

RECURSIVE Gcd(_, _)
Gcd(a, b) == IF b = 0 THEN a ELSE Gcd(b, a % b)
Abs(x) == IF x < 0 THEN -x ELSE x
Canon(p) == LET n == p[1]  d == p[2]
                s == IF d < 0 THEN -1 ELSE 1
                g == Gcd(Abs(n), Abs(d))
            IN  IF n = 0 THEN <<0, 1>> ELSE <<(s * n) \div g, (s * d) \div g>>

\* canonical string of a pair, built only from ToString on integers
Str(p) == LET c == Canon(p) IN
          IF c[2] = 1 THEN ToString(c[1]) ELSE ToString(c[1]) \o "/" \o ToString(c[2])
\* un-normalised spelling handed to the override
Raw(p) == ToString(p[1]) \o "/" \o ToString(p[2])

PAdd(p, q) == <<p[1] * q[2] + q[1] * p[2], p[2] * q[2]>>
PSub(p, q) == <<p[1] * q[2] - q[1] * p[2], p[2] * q[2]>>
PMul(p, q) == <<p[1] * q[1], p[2] * q[2]>>
PDiv(p, q) == <<p[1] * q[2], p[2] * q[1]>>
PLe(p, q)  == p[1] * q[2] <= q[1] * p[2]
PLt(p, q)  == p[1] * q[2] <  q[1] * p[2]
PSign(p)   == IF p[1] > 0 THEN 1 ELSE IF p[1] < 0 THEN -1 ELSE 0
PFloor(p)  == p[1] \div p[2]          \* TLA+ \div floors (p[2] > 0)

Binary == \A p \in Pairs, q \in Pairs :
    /\ RAdd(Raw(p), Raw(q)) = Str(PAdd(p, q))
    /\ RSub(Raw(p), Raw(q)) = Str(PSub(p, q))
    /\ RMul(Raw(p), Raw(q)) = Str(PMul(p, q))
    /\ (q[1] # 0 => RDiv(Raw(p), Raw(q)) = Str(PDiv(p, q)))
    /\ RLe(Raw(p), Raw(q)) = PLe(p, q)
    /\ RLt(Raw(p), Raw(q)) = PLt(p, q)
    /\ REq(Raw(p), Raw(q)) = (PLe(p, q) /\ PLe(q, p))
    /\ RCmp(Raw(p), Raw(q)) = (IF PLt(p, q) THEN -1 ELSE IF PLt(q, p) THEN 1 ELSE 0)
    /\ RMax(Raw(p), Raw(q)) = (IF PLe(q, p) THEN Str(p) ELSE Str(q))
    /\ RMin(Raw(p), Raw(q)) = (IF PLe(p, q) THEN Str(p) ELSE Str(q))

Unary == \A p \in Pairs :
    /\ RNorm(Raw(p)) = Str(p)
    /\ RNeg(Raw(p)) = Str(<<-p[1], p[2]>>)
    /\ RAbs(Raw(p)) = Str(<<Abs(p[1]), p[2]>>)
    /\ RSign(Raw(p)) = PSign(p)
    /\ RFloor(Raw(p)) = ToString(PFloor(p))
    /\ RPow(Raw(p), 0) = "1"
    /\ RPow(Raw(p), 3) = Str(PMul(p, PMul(p, p)))
    /\ (p[1] # 0 => RPow(Raw(p), -2) = Str(PDiv(<<1, 1>>, PMul(p, p))))
    /\ RIsNum(Raw(p))
    /\ RFromInt(p[1]) = ToString(p[1])
    /\ RToInt(Raw(<<p[1] * p[2], p[2]>>)) = p[1]
    /\ RRound(Raw(<<2 * p[1] + 1, 4>>)) = ToString((2 * p[1] + 3) \div 4)

Small == { <<n, d>> : n \in -3..3, d \in 1..3 }
Laws == \A p \in Small, q \in Small, r \in Small :
    LET a == Raw(p)  b == Raw(q)  c == Raw(r) IN
    /\ RAdd(a, b) = RAdd(b, a)
    /\ RMul(a, b) = RMul(b, a)
    /\ RAdd(RAdd(a, b), c) = RAdd(a, RAdd(b, c))
    /\ RMul(RMul(a, b), c) = RMul(a, RMul(b, c))
    /\ RMul(a, RAdd(b, c)) = RAdd(RMul(a, b), RMul(a, c))
    /\ RSub(RAdd(a, b), b) = RNorm(a)
    /\ (q[1] # 0 => RMul(RDiv(a, b), b) = RNorm(a))
    /\ (RLe(a, b) /\ RLe(b, c) => RLe(a, c))
    /\ (RLe(a, b) => RLe(RAdd(a, c), RAdd(b, c)))
    /\ (RLe(a, b) /\ RSign(c) >= 0 => RLe(RMul(a, c), RMul(b, c)))

Literals ==
    /\ RNorm("0.1") = "1/10"
    /\ RNorm("-3.5e-7") = "-7/20000000"
    /\ RNorm("1e3") = "1000"
    /\ RNorm("2.50") = "5/2"
    /\ RNorm("-0.0") = "0"
    /\ RMul("5e-324", RPow("10", 324)) = "5"
    /\ RNorm(7) = "7"
    /\ RAdd("0.1", "0.2") = "3/10"
    /\ RAdd("1.7976931348623157e308", "1.7976931348623157e308") = RMul("2", "1.7976931348623157e308")
    /\ ~RIsNum("nan") /\ ~RIsNum("inf") /\ ~RIsNum("-inf") /\ ~RIsNum("1/0") /\ ~RIsNum("abc")
    /\ RIsNum("12") /\ RIsNum("-1/3") /\ RIsNum("6.02e23")
    /\ RShow("1/3", 5) = "0.33333"
    /\ RRoundDec("1/3", 4) = "3333/10000" /\ RRoundDec("-2/3", 2) = "-67/100" /\ RRoundDec("5", 3) = "5" /\ RRoundDec("1/8", 2) = "13/100"
    /\ RSq("-3/2") = "9/4" /\ RInv("4") = "1/4" /\ RHalf("3") = "3/2"
    /\ RGe("1/2", "1/3") /\ RGt("1/2", "1/3") /\ ~RGt("1/2", "1/2")

\* e^{-x}: the Java evaluation against the degree-40 Taylor polynomial written in TLA+ (remainder x^41/41! < 1e-17 at x = 6)
RECURSIVE TSum(_, _, _, _)
TSum(x, term, i, n) == IF i > n THEN "0" ELSE RAdd(term, TSum(x, RDiv(RMul(term, RNeg(x)), RFromInt(i + 1)), i + 1, n))
ExpOK == \A x \in {"0", "1/7", "1/2", "1", "2.718", "4", "6"} :
            RLe(RAbs(RSub(RExpNeg(x, 40), TSum(x, "1", 0, 60))), IF RLe(x, "4") THEN "1e-30" ELSE "1e-20")
ASSUME ExpOK
ASSUME RExpNeg("0", 10) = "1" /\ RLe(RAbs(RSub(RExpNeg("1", 30), "0.367879441171442321595523770161")), "1e-29")
ASSUME Binary
ASSUME Unary
ASSUME Laws
ASSUME Literals
ASSUME PrintT("RatLaws: all assumptions hold")
=============================================================================
