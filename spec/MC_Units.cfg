
