----------------------------- MODULE Trace_Rules -----------------------------
(***************************************************************************)
(* C15 at the window boundaries: rule.apply() of real rule objects placed  *)
(* in states exactly ON each documented boundary and one grid step either  *)
(* side of it (numbers exactly representable in binary, same units, so no  *)
(* rounding is involved and nothing is "within rounding distance"):        *)
(* windows are inclusive at both ends, as documented.                      *)
(***************************************************************************)
EXTENDS Control, TraceLib, Json, IOUtils
Traces == ndJsonDeserialize(IOEnv.TRACE_FILE)
VARIABLE tid
Eps == "1e-12"

Expected(e) ==
  LET ru == e.rule  m == e.motor IN
  CASE ru.type = "const" -> ConstantPWM(ru, e.t)
    [] ru.type = "reach" -> ReachAngularPosition(ru, e.theta, e.TlMotor, m.Tmax, e.effProd)
    [] ru.type = "startprop" -> LET o == StartProportional(ru, e.theta, m, e.TlRef, e.effProd) IN
                                IF o.t = "val" THEN o.v ELSE IF o.t = "none" THEN CNull ELSE "raise"
    [] ru.type = "startlim" -> IF RLe(e.theta, ru.target) THEN "slc" ELSE CNull

Fails(e) ==
  LET x == Expected(e) IN
  IF x = "raise" THEN Failing({ <<"RuleMustRaise_" \o e.rule.type, e.out.raised # "">> })
  ELSE IF e.out.raised # "" THEN {"RuleRaised_" \o e.rule.type \o "_" \o e.out.raised}
  ELSE IF x = CNull THEN Failing({ <<"RuleOutsideWindowMustNotApply_" \o e.rule.type \o "_" \o e.where, e.out.ret = CNull>> })
  ELSE IF e.out.ret = CNull THEN {"RuleInsideWindowMustApply_" \o e.rule.type \o "_" \o e.where}
  ELSE IF ~RIsNum(e.out.ret) THEN {"RuleNonFinite_" \o e.rule.type}
  ELSE IF x = "slc" THEN Failing({ <<"RuleValue_startlim_" \o e.where,
            SLCIsValue(e.out.ret, RDiv(e.spd, e.motor.w0), RDiv(e.rule.ilim, e.motor.imax), e.motor, "1e-9")>> })
  ELSE Failing({ <<"RuleValue_" \o e.rule.type \o "_" \o e.where, CloseS(e.out.ret, x, Eps, RAdd("1", RAbs(x)))>> })

Init == tid \in 1..Len(Traces)
Next == tid > 0 /\ Verdict(Traces[tid].id, Fails(Traces[tid])) /\ tid' = 0
=============================================================================
