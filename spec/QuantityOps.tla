---------------------------- MODULE QuantityOps ----------------------------
(***************************************************************************)
(* Straight-line programs over quantities (C06, C19).                      *)
(*                                                                         *)
(* State: a heap of live quantity objects [kind, unit, val].  Each action  *)
(* is one call of the public API: construct, a binary operator, negation,  *)
(* absolute value, conversion (copy / in place).  An action either         *)
(* allocates / updates an object or *raises* leaving the heap unchanged.   *)
(* The relation Allowed(...) says which outcomes the documentation and     *)
(* dimensional analysis permit; Result(...) is the deterministic choice    *)
(* the design model checker explores (left operand's unit for same-family  *)
(* results, SI unit for cross-kind results).                               *)
(***************************************************************************)
EXTENDS Units

Obj(k, u, v) == [kind |-> k, unit |-> u, val |-> v]
NumKinds == {"Number"}
IsNum(o) == o.kind = "Number"
SIof(o) == IF IsNum(o) THEN RNorm(o.val) ELSE SI(o.val, o.kind, o.unit)
Valid(o) == IsNum(o) \/ (o.kind \in Kinds /\ o.unit \in UnitNames(o.kind) /\ SignOK(o.kind, o.val))
AllValid(heap) == \A i \in 1..Len(heap) : Valid(heap[i])

\* exact SI magnitude of  a op b
Exact(op, a, b) == CASE op = "+" -> RAdd(SIof(a), SIof(b))
                     [] op = "-" -> RSub(SIof(a), SIof(b))
                     [] op = "*" -> RMul(SIof(a), SIof(b))
                     [] op = "/" -> RDiv(SIof(a), SIof(b))

\* outcome classes:  [t |-> "ret", kind, si] | [t |-> "raise", err]
Ret(k, si) == [t |-> "ret", kind |-> k, si |-> si]
Raise(e)   == [t |-> "raise", err |-> e]

SignOKX(k, si) == k = "Number" \/ SignOK(k, si)

\* every outcome the specification allows for a binary operation
AllowedBin(op, a, b) ==
  LET D == Dictated(op, a.kind, b.kind) IN
  IF D = {} THEN {Raise("TypeError")} \cup
                 (IF op = "/" /\ RSign(SIof(b)) = 0 THEN {Raise("ZeroDivisionError")} ELSE {})   \* zero checked before the kind
  ELSE IF op = "/" /\ RSign(SIof(b)) = 0 THEN
       {Raise("ZeroDivisionError")} \cup (IF MustReturn(op, a.kind, b.kind) THEN {} ELSE {Raise("TypeError")})
  ELSE LET x == Exact(op, a, b) IN
       { Ret(k, x) : k \in { k \in D : SignOKX(k, x) } }
       \cup (IF \E k \in D : ~SignOKX(k, x) THEN {Raise("ValueError")} ELSE {})
       \cup (IF MustReturn(op, a.kind, b.kind) THEN {} ELSE {Raise("TypeError")})

\* the deterministic result used by the design model (mirrors the implementation's unit choice)
ResultKind(op, a, b) ==
  LET D == Dictated(op, a.kind, b.kind) IN
  IF a.kind \in D THEN a.kind
  ELSE IF b.kind \in D /\ a.kind = "Number" THEN b.kind
  ELSE IF Family(a.kind) \in D /\ op \in {"+", "-"} THEN Family(a.kind)
  ELSE CHOOSE k \in D : \A k2 \in D : Family(k2) = k \/ k2 = k
ResultUnit(op, a, b, k) ==
  IF k = "Number" THEN "" ELSE IF Family(k) = Family(a.kind) THEN a.unit
  ELSE IF a.kind = "Number" THEN b.unit ELSE SIUnit(k)
FromSI(k, u, si) == IF k = "Number" THEN si ELSE Conv(si, k, SIUnit(k), u)

ApplyBin(op, a, b) ==
  LET D == Dictated(op, a.kind, b.kind) IN
  IF D = {} \/ ~MustReturn(op, a.kind, b.kind) THEN Raise("TypeError")
  ELSE IF op = "/" /\ RSign(SIof(b)) = 0 THEN Raise("ZeroDivisionError")
  ELSE LET x == Exact(op, a, b)  k == ResultKind(op, a, b) IN
       IF ~SignOKX(k, x) THEN Raise("ValueError") ELSE Ret(k, x)

(* ---- unary ---- *)
AllowedNeg(a) == LET x == RNeg(SIof(a)) IN
                 IF SignOK(a.kind, x) THEN {Ret(a.kind, x)} ELSE {Raise("ValueError")}
AllowedAbs(a) == LET x == RAbs(SIof(a)) IN
                 IF SignOK(a.kind, x) THEN {Ret(a.kind, x)} ELSE {Raise("ValueError")}
\* conversion never changes the SI magnitude; an unknown unit name raises KeyError
AllowedTo(a, u) == IF u \in UnitNames(a.kind) THEN {Ret(a.kind, SIof(a))} ELSE {Raise("KeyError")}
AllowedNew(k, u, v) == IF u \notin UnitNames(k) THEN {Raise("KeyError")}
                       ELSE IF SignOK(k, v) THEN {Ret(k, SI(v, k, u))} ELSE {Raise("ValueError")}

=============================================================================
