---------------------------- MODULE MC_Quantity ----------------------------
EXTENDS Quantity
AllKindsC == Kinds
QuickKinds == {"Angle", "AngularPosition", "TimeInterval", "Time", "Length", "Surface", "AngularSpeed", "Torque", "InertiaMoment"}
ValsC == {"-2", "0", "1/2", "3"}
NumsC == {"-2", "0", "3"}
ValsQuick == {"-2", "0", "3"}
=============================================================================
