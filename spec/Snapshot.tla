------------------------------ MODULE Snapshot ------------------------------
(***************************************************************************)
(* Powertrain.snapshot and export_time_variables (C18): what a table of    *)
(* the recorded history must contain.  time: recorded instants (SI);       *)
(* hist[i]: variable |-> series (SI) of element i; all from the recording. *)
(***************************************************************************)
EXTENDS Units

Vars == <<"angular_position", "angular_speed", "angular_acceleration", "torque", "driving_torque", "load_torque",
          "tangential_force", "bending_stress", "contact_stress", "electric_current", "pwm">>      \* display order
VarSet == { Vars[i] : i \in 1..Len(Vars) }
KindOfVar(v) == CASE v = "angular_position" -> "AngularPosition" [] v = "angular_speed" -> "AngularSpeed"
                  [] v = "angular_acceleration" -> "AngularAcceleration"
                  [] v \in {"torque", "driving_torque", "load_torque"} -> "Torque"
                  [] v = "tangential_force" -> "Force" [] v \in {"bending_stress", "contact_stress"} -> "Stress"
                  [] v = "electric_current" -> "Current"
\* which unit argument governs a variable (units: record of the unit arguments of the call)
UnitOfVar(units, v) == CASE v = "angular_position" -> units.angular_position [] v = "angular_speed" -> units.angular_speed
                         [] v = "angular_acceleration" -> units.angular_acceleration [] v = "torque" -> units.torque
                         [] v = "driving_torque" -> units.driving_torque [] v = "load_torque" -> units.load_torque
                         [] v = "tangential_force" -> units.force [] v \in {"bending_stress", "contact_stress"} -> units.stress
                         [] v = "electric_current" -> units.current [] v = "pwm" -> ""
\* column label: "angular position (rad)", "pwm"
Spaced(v) == CASE v = "angular_position" -> "angular position" [] v = "angular_speed" -> "angular speed"
               [] v = "angular_acceleration" -> "angular acceleration" [] v = "torque" -> "torque"
               [] v = "driving_torque" -> "driving torque" [] v = "load_torque" -> "load torque"
               [] v = "tangential_force" -> "tangential force" [] v = "bending_stress" -> "bending stress"
               [] v = "contact_stress" -> "contact stress" [] v = "electric_current" -> "electric current" [] v = "pwm" -> "pwm"
Label(units, v) == IF v = "pwm" THEN "pwm" ELSE Spaced(v) \o " (" \o UnitOfVar(units, v) \o ")"

\* value of a magnitude in the requested unit
InUnit(units, v, si) == IF v = "pwm" THEN si ELSE Conv(si, KindOfVar(v), SIUnit(KindOfVar(v)), UnitOfVar(units, v))

\* the two recorded instants bracketing t (t inside the recorded interval)
Bracket(time, t) == IF RGe(t, time[Len(time)]) THEN Len(time) - 1
                    ELSE CHOOSE j \in 1..(Len(time) - 1) : RLe(time[j], t) /\ RLt(t, time[j + 1])
\* linear interpolation of a series at t
Interp(time, s, t) ==
  IF Len(time) = 1 THEN s[1]
  ELSE LET j == Bracket(time, t) IN
       RAdd(s[j], RMul(RSub(s[j + 1], s[j]), RDiv(RSub(t, time[j]), RSub(time[j + 1], time[j]))))
InterpScale(time, s, t) == IF Len(time) = 1 THEN RAbs(s[1]) ELSE LET j == Bracket(time, t) IN RMax(RAbs(s[j]), RAbs(s[j + 1]))

\* variables recorded by at least one element = what may be requested; a snapshot without selection shows them all
Records(hist, i, v) == v \in DOMAIN hist[i] /\ Len(hist[i][v]) > 0
AllRecorded(hist) == { v \in VarSet : \E i \in 1..Len(hist) : Records(hist, i, v) }
Requested(hist, sel) == IF sel = <<>> THEN AllRecorded(hist) ELSE { sel[x] : x \in 1..Len(sel) }
ExpectedColumns(hist, sel, units) == { Label(units, v) : v \in Requested(hist, sel) }

(***************************************************************************)
(* Powertrain.plot (growth beyond the listed properties; the same          *)
(* "tables of the recorded history" statement as C18, for the figure):     *)
(* a grid with one column per selected element (powertrain order) and one  *)
(* row per kinematic variable plus one row per group (torques, force,      *)
(* stresses, current, pwm); a cell holds exactly one line per requested    *)
(* variable its element records, and the line is the recorded series in    *)
(* the requested unit over the time axis in the requested time unit.       *)
(***************************************************************************)
PlotRowSets == << {"angular_position"}, {"angular_speed"}, {"angular_acceleration"}, {"torque", "driving_torque", "load_torque"},
                  {"tangential_force"}, {"bending_stress", "contact_stress"}, {"electric_current"}, {"pwm"} >>
PlotRows(req) == LET nonempty(S) == S \cap req # {} IN
                 [ r \in 1..Len(SelectSeq(PlotRowSets, nonempty)) |-> SelectSeq(PlotRowSets, nonempty)[r] \cap req ]
PlotLabel(v) == CASE v = "torque" -> "net" [] v = "driving_torque" -> "driving" [] v = "load_torque" -> "load"
                  [] v = "bending_stress" -> "bending" [] v = "contact_stress" -> "contact" [] OTHER -> ""
\* without a selection the figure shows every variable some SELECTED element advertises
PlotRequested(hist, elsel, sel) == IF sel = <<>> THEN { v \in VarSet : \E x \in 1..Len(elsel) : v \in DOMAIN hist[elsel[x]] }
                                   ELSE { sel[x] : x \in 1..Len(sel) }
=============================================================================
