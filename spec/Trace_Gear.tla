----------------------------- MODULE Trace_Gear -----------------------------
(***************************************************************************)
(* Code -> spec validation for C09: flags, Lewis factor, tangential force, *)
(* bending stress and (squared) contact stress of real gear objects.       *)
(***************************************************************************)
EXTENDS Gear, TraceLib, Json, IOUtils
Traces == ndJsonDeserialize(IOEnv.TRACE_FILE)
VARIABLE tid
Eps == "1e-9"

Side(tag, g, mate, Tl, Td, o) ==
  LET mated == g.role # "none" IN
  Failing({
    <<tag \o "FlagForce",   o.ft_flag = FtFlag(g)>>,
    <<tag \o "FlagBending", o.sb_flag = SbFlag(g, mate)>>,
    <<tag \o "FlagContact", o.sc_flag = ScFlag(g)>>,
    <<tag \o "LewisFactor", (o.lewis # "null") => (RIsNum(o.lewis) /\ CloseR(o.lewis, LewisOf(g), Eps))>>,
    <<tag \o "LewisPresent", (IsGearBase(g) /\ Has(g.module) /\ Has(g.b)) => o.lewis # "null">>,
    <<tag \o "ForceUnmatedRaises", (o.ft.called /\ ~mated) => (~o.ft.ok /\ o.ft.err = "ValueError")>>,
    <<tag \o "ForceValue", (o.ft.called /\ mated) =>
          (o.ft.ok /\ RIsNum(o.ft.val) /\ CloseR(o.ft.val, Force(g, Tl, Td), Eps))>>,
    <<tag \o "BendingValue", (o.sb.called /\ mated /\ o.ft.ok) =>
          (o.sb.ok /\ RIsNum(o.sb.val) /\ CloseR(o.sb.val, Bending(g, mate, o.ft.val), Eps))>>,
    <<tag \o "ContactRaises", (o.sc.called /\ ContactRaises(g, mate)) => (~o.sc.ok /\ o.sc.err = "ValueError")>>,
    <<tag \o "ContactValue", (o.sc.called /\ ~ContactRaises(g, mate) /\ o.ft.ok) =>
          (o.sc.ok /\ RIsNum(o.sc.val) /\ CloseR(RSq(o.sc.val), Contact2(g, mate, o.ft.val), "2e-9"))>> })

Fails(e) ==
  IF e.ev = "lewis" THEN Failing({ <<"LewisTableValue", RIsNum(e.val) /\ CloseR(e.val, Lewis(RFromInt(e.z)), "1e-12")>> })
  ELSE IF e.ev = "lewiscsv" THEN Failing({ <<"LewisTableRow", e.i \in 1..NL /\ LewisTable[e.i][1] = e.z /\ REq(LewisTable[e.i][2], e.y)>>,
                                           <<"LewisTableLen", e.n = NL>> })
  ELSE Side("A_", e.a, e.b, e.Tl_a, e.Td_a, e.out_a) \cup Side("B_", e.b, e.a, e.Tl_b, e.Td_b, e.out_b)

Init == tid \in 1..Len(Traces)
Next == tid > 0 /\ Verdict(Traces[tid].id, Fails(Traces[tid])) /\ tid' = 0
=============================================================================
