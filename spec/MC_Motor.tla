------------------------------ MODULE MC_Motor ------------------------------
EXTENDS Motor
Motors == { [Tmax |-> t, w0 |-> w, i0 |-> i, imax |-> x] :
              t \in {"1/100", "2"}, w \in {"16", "500"}, i \in {"0", "1/5", "9/1000"}, x \in {"2", "9/50"} }
          \cup { [Tmax |-> "2", w0 |-> "16", i0 |-> MNull, imax |-> MNull] }
Valid(m) == ~HasCurrent(m) \/ RLt(m.i0, m.imax)
Ws(m) == { RMul(k, m.w0) : k \in {"-2", "-1", "-1/3", "0", "1/7", "1/2", "1", "3/2", "2"} }
Ds == {"-1", "-3/4", "-1/10", "-1/20", "-1/1000", "0", "1/1000", "1/20", "1/10", "1/3", "3/4", "1"}
ASSUME \A m \in { m \in Motors : Valid(m) } : Consequences(m, Ws(m), Ds)
ASSUME PrintT("MC_Motor: consequences hold on the grid")
=============================================================================
