SPECIFICATION QSpec
CONSTANTS
  MCKinds <- AllKindsC
  MCVals <- ValsC
  MCNums <- NumsC
  MaxObjs = 2
  MaxOps = 1
INVARIANT HeapValid
INVARIANT ResultExact
INVARIANT InverseLaws
PROPERTY RaiseKeepsHeap
CHECK_DEADLOCK FALSE
