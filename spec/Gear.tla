-------------------------------- MODULE Gear --------------------------------
(***************************************************************************)
(* Gear tooth force and stresses (C09), computability flags and advertised *)
(* / recorded time variables (C17), from the documentation.                *)
(*                                                                         *)
(* A gear g is a record                                                    *)
(*   [cls, teeth (or starts for a worm), module, b (face width), E,        *)
(*    th (tan(helix/2)), alpha (worm pressure angle, rad), dref (worm      *)
(*    reference diameter), role \in {"master","slave","none"}]             *)
(* with "null" for absent optional data; magnitudes are SI rationals.      *)
(* Helix angles enter only through t = tan(beta/2), so sin, cos and tan of *)
(* beta are rational; the Hertz stress is stated squared.                  *)
(***************************************************************************)
EXTENDS Components

Tan20 == "0.36397023426620236135104788277683404389047178375374"     \* tan(20 deg), 50 digits
HertzK == "0.262922"

(* ---- Lewis factor table (tabulated teeth numbers) ---- *)
LewisTable == <<
  <<10, "0.201">>, <<11, "0.226">>, <<12, "0.245">>, <<13, "0.264">>, <<14, "0.276">>, <<15, "0.289">>,
  <<16, "0.295">>, <<17, "0.302">>, <<18, "0.308">>, <<19, "0.314">>, <<20, "0.320">>, <<21, "0.325">>,
  <<22, "0.330">>, <<24, "0.337">>, <<26, "0.344">>, <<28, "0.352">>, <<30, "0.358">>, <<32, "0.364">>,
  <<34, "0.370">>, <<36, "0.377">>, <<38, "0.383">>, <<40, "0.389">>, <<43, "0.394">>, <<45, "0.399">>,
  <<50, "0.408">>, <<55, "0.415">>, <<60, "0.421">>, <<65, "0.425">>, <<70, "0.429">>, <<75, "0.433">>,
  <<80, "0.436">>, <<90, "0.442">>, <<100, "0.446">>, <<150, "0.458">>, <<200, "0.463">>, <<300, "0.471">>,
  <<400, "0.478">>, <<500, "0.484">> >>
NL == Len(LewisTable)
LX(i) == RFromInt(LewisTable[i][1])
LY(i) == LewisTable[i][2]

\* linear interpolation between tabulated teeth numbers, clamped at both ends; z is a rational
Lewis(z) ==
  IF RLe(z, LX(1)) THEN RNorm(LY(1))
  ELSE IF RGe(z, LX(NL)) THEN RNorm(LY(NL))
  ELSE LET i == CHOOSE i \in 1..(NL - 1) : RLe(LX(i), z) /\ RLt(z, LX(i + 1)) IN
       RAdd(LY(i), RMul(RSub(LY(i + 1), LY(i)), RDiv(RSub(z, LX(i)), RSub(LX(i + 1), LX(i)))))

(* ---- trigonometry of the helix angle from t = tan(beta/2) ---- *)
SinB(t) == RDiv(RMul("2", t), RAdd("1", RSq(t)))
CosB(t) == RDiv(RSub("1", RSq(t)), RAdd("1", RSq(t)))
TanB(t) == RDiv(RMul("2", t), RSub("1", RSq(t)))
\* transverse pressure angle: tan(alpha_t) = tan(20 deg) / cos(beta)
TanAt(t)  == RDiv(Tan20, CosB(t))
Cos2At(t) == RDiv("1", RAdd("1", RSq(TanAt(t))))
SinCosAt(t) == RDiv(TanAt(t), RAdd("1", RSq(TanAt(t))))             \* sin(alpha_t) * cos(alpha_t)
\* base helix angle: tan(beta_b) = cos(alpha_t) * tan(beta)  =>  1/cos^2(beta_b) = 1 + cos^2(alpha_t) tan^2(beta)
InvCos2Bb(t) == RAdd("1", RMul(Cos2At(t), RSq(TanB(t))))
\* virtual number of teeth of a helical gear
VirtualTeeth(z, t) == RDiv(RMul(RFromInt(z), InvCos2Bb(t)), CosB(t))

IsHelical(g) == g.cls \in {"HelicalGear", "WormWheel"}
IsGearBase(g) == g.cls \in {"SpurGear", "HelicalGear", "WormWheel"}
LewisOf(g) == CASE g.cls = "SpurGear" -> Lewis(RFromInt(g.teeth))
                [] g.cls = "HelicalGear" -> Lewis(VirtualTeeth(g.teeth, g.th))
                [] g.cls = "WormWheel" -> RNorm(WormRow(g.alpha).lewis)

(* ---- computability flags ---- *)
FtFlag(g) == IF g.cls = "WormGear" THEN Has(g.dref) ELSE Has(g.module)
\* mate = the gear it meshes with ("none" if it has no mating)
SbFlag(g, mate) == /\ IsGearBase(g) /\ Has(g.module) /\ Has(g.b)
                   /\ (g.cls = "WormWheel" /\ g.role # "none" => Has(mate.dref))
ScFlag(g) == IsGearBase(g) /\ Has(g.module) /\ Has(g.b) /\ Has(g.E)
\* asking for a contact stress whose mate lacks module or elastic modulus raises ValueError
ContactRaises(g, mate) == g.role = "none" \/ ~Has(mate.module) \/ ~Has(mate.E)

(* ---- force and stresses ---- *)
RefDiam(g) == IF g.cls = "WormGear" THEN g.dref ELSE RMul(RFromInt(g.teeth), g.module)
RefTorque(g, Tl, Td) == IF g.role = "master" THEN Tl ELSE Td
\* spur, helical, worm wheel
GearForce(g, Tl, Td) == RDiv(RAbs(RefTorque(g, Tl, Td)), RHalf(RefDiam(g)))
\* the worm's own thread force AS THE IMPLEMENTATION COMPUTES IT (named deviation from its docstring, which
\* says torque / radius): torque / radius * tan(helix).  DESIGN.md observation O4.
WormThreadForce(g, Tl, Td) == RMul(RDiv(RAbs(RefTorque(g, Tl, Td)), RHalf(g.dref)), TanB(g.th))
Force(g, Tl, Td) == IF g.cls = "WormGear" THEN WormThreadForce(g, Tl, Td) ELSE GearForce(g, Tl, Td)

Min(a, b) == RMin(a, b)
\* bending stress from the tangential force ft
Bending(g, mate, ft) ==
  IF g.cls = "WormWheel"
  THEN LET pn == RDiv(RMul(RMul(Pi, mate.dref), SinB(mate.th)), RFromInt(g.teeth))
           beff == Min(g.b, RMul("0.67", mate.dref))
       IN RDiv(RDiv(ft, RMul(pn, beff)), LewisOf(g))
  ELSE RDiv(RDiv(ft, RMul(g.module, g.b)), LewisOf(g))

\* contact (Hertz) stress SQUARED
Contact2(g, mate, ft) ==
  LET D1 == RefDiam(g)  D2 == RefDiam(mate)
      t == IF IsHelical(g) THEN g.th ELSE "0"
      geom == RDiv(RMul(RMul("4", ft), CosB(t)), RMul(g.b, SinCosAt(t)))
      curv == RAdd(RInv(D1), RInv(D2))
      mod == RDiv(RMul(g.E, mate.E), RAdd(g.E, mate.E))
  IN RMul(RSq(HertzK), RMul(RMul(geom, curv), mod))

(* ---- time variables (C17) ---- *)
BaseVars == {"angular position", "angular speed", "angular acceleration", "torque", "driving torque", "load torque"}
\* what an element *advertises* (keys of its time_variables); decided from its own data at construction
AdvertisedCtor(g) ==
  BaseVars
  \cup (IF g.cls = "DCMotor" THEN {"pwm"} \cup (IF g.hasCurrent THEN {"electric current"} ELSE {}) ELSE {})
  \cup (IF g.cls = "WormGear" /\ Has(g.dref) THEN {"tangential force"} ELSE {})
  \cup (IF IsGearBase(g) /\ Has(g.module) THEN {"tangential force"} ELSE {})
  \cup (IF IsGearBase(g) /\ Has(g.module) /\ Has(g.b) THEN {"bending stress"} ELSE {})
  \cup (IF IsGearBase(g) /\ Has(g.module) /\ Has(g.b) /\ Has(g.E) THEN {"contact stress"} ELSE {})
\* what the solver *records* for it at every instant
Recorded(g, mate) ==
  BaseVars
  \cup (IF g.cls = "DCMotor" THEN {"pwm"} \cup (IF g.hasCurrent THEN {"electric current"} ELSE {}) ELSE {})
  \cup (IF g.cls \in {"SpurGear", "HelicalGear", "WormWheel", "WormGear"} /\ FtFlag(g) THEN {"tangential force"} ELSE {})
  \cup (IF SbFlag(g, mate) THEN {"bending stress"} ELSE {})
  \cup (IF SbFlag(g, mate) /\ ScFlag(g) THEN {"contact stress"} ELSE {})

(* ---- sanity lemmas checked by MC_Gear ---- *)
GearLemmas ==
  /\ \A z \in 10..520 : VirtualTeeth(z, "0") = RFromInt(z)              \* a helical gear with beta = 0 is a spur gear
  /\ \A i \in 1..NL : Lewis(LX(i)) = RNorm(LY(i))                        \* interpolation passes through the table
  /\ \A z \in 10..520 : RLe(RNorm(LY(1)), Lewis(RFromInt(z))) /\ RLe(Lewis(RFromInt(z)), RNorm(LY(NL)))
  /\ \A z \in 10..519 : RLe(Lewis(RFromInt(z)), Lewis(RFromInt(z + 1)))  \* monotone
  /\ Lewis("9") = RNorm(LY(1)) /\ Lewis("100000") = RNorm(LY(NL))        \* clamped
  /\ Lewis("23") = "667/2000" /\ Lewis("125") = "113/250"
  /\ SinCosAt("0") = RDiv(Tan20, RAdd("1", RSq(Tan20)))
=============================================================================
