------------------------------- MODULE Motor -------------------------------
(***************************************************************************)
(* DC motor characteristic, transcribed from the documentation (C08).      *)
(* m = [Tmax, w0, i0, imax]  (SI rationals; i0 = imax = "null" for a motor *)
(* without current data).  D is the duty cycle in [-1, 1], w the speed.    *)
(***************************************************************************)
EXTENDS Integers, Sequences, TLC, BigRat

MNull == "null"
HasCurrent(m) == m.i0 # MNull /\ m.imax # MNull

DeadZone(m) == RDiv(m.i0, m.imax)                        \* |D| <= i0/imax : no torque
InDead(m, D) == RLe(RAbs(D), DeadZone(m))

\* maximum torque and no-load speed at duty cycle D (outside the dead zone); mirrored for D < 0
TmaxD(m, D) == IF RSign(D) > 0 THEN RMul(m.Tmax, RDiv(RSub(RMul(D, m.imax), m.i0), RSub(m.imax, m.i0)))
               ELSE RMul(m.Tmax, RDiv(RAdd(RMul(D, m.imax), m.i0), RSub(m.imax, m.i0)))
W0D(m, D) == RMul(D, m.w0)

Torque(m, w, D) ==
  IF ~HasCurrent(m) THEN RMul(m.Tmax, RSub("1", RDiv(w, m.w0)))
  ELSE IF InDead(m, D) THEN "0"
  ELSE RMul(TmaxD(m, D), RSub("1", RDiv(w, W0D(m, D))))

\* absorbed current from the torque actually delivered (the documented form) ...
CurrentFromTorque(m, T, D) ==
  IF InDead(m, D) THEN RMul(D, m.imax)
  ELSE IF RSign(D) > 0 THEN RAdd(RMul(RSub(RMul(D, m.imax), m.i0), RDiv(T, TmaxD(m, D))), m.i0)
  ELSE RSub(RMul(RAdd(RMul(D, m.imax), m.i0), RDiv(T, TmaxD(m, D))), m.i0)
\* ... and as a function of the state (w, D)
Current(m, w, D) == CurrentFromTorque(m, Torque(m, w, D), D)

\* condition scales (sum of the absolute values of the terms) used by trace validation
TorqueScale(m, w, D) ==
  IF ~HasCurrent(m) THEN RMul(m.Tmax, RAdd("1", RAbs(RDiv(w, m.w0))))
  ELSE IF RSign(D) = 0 THEN m.Tmax
  ELSE RMul(RMul(m.Tmax, RDiv(RAdd(RMul(RAbs(D), m.imax), m.i0), RSub(m.imax, m.i0))),
            RAdd("1", RAbs(RDiv(w, W0D(m, D)))))
CurrentScale(m, w, D) ==
  IF RSign(D) = 0 THEN m.imax
  ELSE RAdd(RMul(RAdd(RMul(RAbs(D), m.imax), m.i0), RAdd("1", RAbs(RDiv(w, W0D(m, D))))), m.i0)

(* ---- consequences the documentation states, checked by MC_Motor on a grid ---- *)
Consequences(m, ws, Ds) ==
  /\ HasCurrent(m) =>
       /\ Torque(m, "0", "1") = m.Tmax /\ Current(m, "0", "1") = m.imax           \* standstill, full duty
       /\ Torque(m, m.w0, "1") = "0"   /\ Current(m, m.w0, "1") = m.i0            \* no-load speed
       /\ \A w \in ws :                                                            \* continuity at the boundary
            LET b == DeadZone(m) IN
            /\ RSign(b) > 0 => /\ RMul(TmaxD(m, b), RSub("1", RDiv(w, W0D(m, b)))) = "0"     \* outer law -> 0 = inner law
                               /\ RMul(TmaxD(m, RNeg(b)), RSub("1", RDiv(w, W0D(m, RNeg(b))))) = "0"
                               /\ Current(m, w, b) = m.i0 /\ Current(m, w, RNeg(b)) = RNeg(m.i0)
       /\ \A w \in ws, D \in Ds :                                                 \* oddness
            /\ Torque(m, RNeg(w), RNeg(D)) = RNeg(Torque(m, w, D))
            /\ Current(m, RNeg(w), RNeg(D)) = RNeg(Current(m, w, D))
       /\ \A w \in ws, D \in Ds : InDead(m, D) => Torque(m, w, D) = "0" /\ Current(m, w, D) = RMul(D, m.imax)
       /\ \A D \in Ds : (~InDead(m, D)) => Torque(m, W0D(m, D), D) = "0"          \* no-load speed scales with D
  /\ ~HasCurrent(m) => \A w \in ws, D \in Ds : Torque(m, w, D) = RMul(m.Tmax, RSub("1", RDiv(w, m.w0)))
=============================================================================
