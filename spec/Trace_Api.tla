------------------------------ MODULE Trace_Api ------------------------------
EXTENDS Api, Units, TraceLib, Json, IOUtils
Traces == ndJsonDeserialize(IOEnv.TRACE_FILE)
VARIABLE tid
\* sensor reading event: call = "sensor_value", kind, si (the target's live attribute, SI), unit ("" = no unit argument: the quantity
\* itself is returned and re-read in SI), out (the number returned / the returned quantity in SI), isnum (a bare number came back)
SensorFails(e) == Failing({
   <<"SensorReturnsNumberIffUnitGiven_" \o e.sensor, e.isnum = (e.unit # "")>>,
   <<"SensorValueInUnit_" \o e.sensor, RIsNum(e.out) /\ LET x == IF e.unit = "" THEN e.si ELSE Conv(e.si, e.kind, SIUnit(e.kind), e.unit) IN CloseS(e.out, x, "1e-12", RAbs(x))>> })
CallFails(e) == Failing({
   <<"Api_" \o e.call \o "_" \o e.arg \o "_" \o e.out, e.out \in Expected(e.call, e.arg)>>,
   <<"ApiRefusalChangedState_" \o e.call \o "_" \o e.arg, (e.out # "ok" /\ ValidatesFirst(e.call, e.arg)) => ~e.state_changed>> })
Fails(e) == IF e.call = "sensor_value" THEN SensorFails(e) ELSE CallFails(e)
Init == tid \in 1..Len(Traces)
Next == tid > 0 /\ Verdict(Traces[tid].id, Fails(Traces[tid])) /\ tid' = 0
=============================================================================
