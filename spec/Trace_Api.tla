------------------------------ MODULE Trace_Api ------------------------------
EXTENDS Api, TraceLib, Json, IOUtils
Traces == ndJsonDeserialize(IOEnv.TRACE_FILE)
VARIABLE tid
Fails(e) == Failing({
   <<"Api_" \o e.call \o "_" \o e.arg \o "_" \o e.out, e.out \in Expected(e.call, e.arg)>>,
   <<"ApiRefusalChangedState_" \o e.call \o "_" \o e.arg, (e.out # "ok" /\ ValidatesFirst(e.call, e.arg)) => ~e.state_changed>> })
Init == tid \in 1..Len(Traces)
Next == tid > 0 /\ Verdict(Traces[tid].id, Fails(Traces[tid])) /\ tid' = 0
=============================================================================
