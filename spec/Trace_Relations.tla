--------------------------- MODULE Trace_Relations ---------------------------
(***************************************************************************)
(* Code -> spec validation for C10 / C20: a recorded sequence of           *)
(* declaration calls (accepted and rejected) and powertrain assemblies on  *)
(* real gearpy objects.  After EVERY call the public relation attributes   *)
(* of ALL objects are re-read and compared with the specification state.   *)
(***************************************************************************)
EXTENDS Relations, TraceLib, Json, IOUtils
Traces == ndJsonDeserialize(IOEnv.TRACE_FILE)
VARIABLES tid, l, trel, tpts, nf
vars == <<tid, l, trel, tpts, nf>>

Eps == "1e-12"
NumEq(x, y) == IF x = Null \/ y = Null THEN x = y ELSE (RIsNum(x) /\ CloseR(x, y, Eps))
\* an efficiency lives in [0, 1] and, for worm matings, is a quotient whose numerator cancels near the self-locking threshold
\* (cos a - f / tan b): its rounding error is Eps x the condition scale of the formula (at most ~130 for the flattest worm),
\* not Eps x its own (possibly tiny) value
EffEq(x, y) == IF x = Null \/ y = Null THEN x = y
               ELSE RIsNum(x) /\ RLe(RAbs(RSub(x, y)), RAdd(RMul(Eps, RMax(RAbs(x), RAbs(y))), "1e-13"))
AttrEq(a, r) == /\ a.drives = r.drives /\ a.drivenBy = r.drivenBy /\ a.role = r.role /\ a.sl = r.sl
                /\ NumEq(a.ratio, r.ratio) /\ EffEq(a.eff, r.eff)
RelEq(attrs, r) == \A x \in DOMAIN r : AttrEq(attrs[x], r[x])

Outcomes(objs, r, s) ==
  CASE s.call = "gear"  -> GearMating(objs, r, s.m, s.s, s.arg)
    [] s.call = "worm"  -> WormMating(objs, r, s.m, s.s, s.arg)
    [] s.call = "joint" -> FixedJoint(objs, r, s.m, s.s)

\* which clause failed, for a declaration step
DeclFails(objs, r, s) ==
  LET outs == Outcomes(objs, r, s)
      sameT == { o \in outs : o.t = s.t }
      sameE == { o \in sameT : o.t = "ok" \/ o.err = s.err }
      match == { o \in sameE : RelEq(s.attrs, o.rel) } IN
  IF match # {} THEN {}
  ELSE IF sameT = {} THEN (IF s.t = "ok" THEN {"AcceptedButMustReject_" \o s.call} ELSE {"RejectedButMustAccept_" \o s.call \o "_" \o s.err})
  ELSE IF sameE = {} THEN {"WrongErrorClass_" \o s.call \o "_" \o s.err}
  ELSE IF s.t = "raise" THEN {"RejectedCallModifiedState_" \o s.call}
  ELSE {"RelationStateAfter_" \o s.call}

PtEq(p, a) == p.elements = a.elements /\ p.selfLocking = a.selfLocking
AsmFails(objs, r, s) ==
  LET a == Assemble(objs, r, s.m, Cardinality(DOMAIN objs) + 1) IN
  IF a.t = "diverges" THEN {"UNJUDGED_Cycle"}
  ELSE Failing({
    <<"AssembleOutcome", a.t = s.t /\ (a.t = "raise" => a.err = s.err)>>,
    <<"AssembleElements", (a.t = "ok" /\ s.t = "ok") => a.elements = s.elements>>,
    <<"AssembleSelfLocking", (a.t = "ok" /\ s.t = "ok") => a.selfLocking = s.selfLocking>>,
    <<"AssembleKeepsRelations", RelEq(s.attrs, r)>>,
    <<"PowertrainNotAssignable", s.t = "ok" => s.assign_raises>> })

\* every powertrain assembled earlier still shows the same elements / flag (C20 immutability)
PtsFails(s) == Failing({ <<"PowertrainChangedLater",
     Len(s.pts) >= Len(tpts) /\ \A i \in 1..Len(tpts) : PtEq(s.pts[i], tpts[i])>> })

AsRel(attrs) == [x \in DOMAIN attrs |-> [drives |-> attrs[x].drives, drivenBy |-> attrs[x].drivenBy, role |-> attrs[x].role,
                                         ratio |-> IF attrs[x].ratio = Null THEN Null ELSE RNorm(attrs[x].ratio),
                                         eff |-> RNorm(attrs[x].eff), sl |-> attrs[x].sl]]

Init == tid \in 1..Len(Traces) /\ l = 1 /\ nf = 0 /\ tpts = <<>>
        /\ trel = [x \in DOMAIN Traces[tid].objs |-> FreshRel]

Step == /\ l > 0 /\ l <= Len(Traces[tid].steps)
        /\ LET tr == Traces[tid]  s == tr.steps[l]
               f == (IF s.call = "assemble" THEN AsmFails(tr.objs, trel, s) ELSE DeclFails(tr.objs, trel, s)) \cup PtsFails(s)
               real == { x \in f : x # "UNJUDGED_Cycle" } IN
           /\ (real # {} => PrintT("V|" \o tr.id \o "|FAIL|" \o JoinSet({ x \o "@" \o ToString(l) : x \in real })))
           /\ nf' = nf + (IF real = {} THEN 0 ELSE 1)
           \* The specification's state evolves by the SPECIFICATION's semantics of the declared calls (C20 speaks about the chain
           \* the declarations produce: a flag smuggled in by a rejected call, or a re-declaration that silently did nothing, must
           \* not explain a later assembly).  Where several outcomes are allowed (a friction within rounding distance of a
           \* threshold) the one the implementation took is followed; only if none matches AND the specification is ambiguous
           \* is the state re-synchronised on what the implementation shows.
           /\ trel' = IF s.call = "assemble" THEN trel
                      ELSE LET outs == Outcomes(tr.objs, trel, s)
                               match == { o \in outs : o.t = s.t /\ (o.t = "ok" \/ o.err = s.err) /\ RelEq(s.attrs, o.rel) } IN
                           IF match # {} THEN (CHOOSE o \in match : TRUE).rel
                           ELSE IF Cardinality(outs) = 1 THEN (CHOOSE o \in outs : TRUE).rel
                           ELSE AsRel(s.attrs)
           /\ tpts' = IF s.call = "assemble" /\ s.t = "ok"
                      THEN Append(tpts, [elements |-> s.elements, selfLocking |-> s.selfLocking]) ELSE tpts
        /\ l' = l + 1 /\ UNCHANGED tid

End == /\ l > 0 /\ l = Len(Traces[tid].steps) + 1
       /\ (nf = 0 => PrintT("V|" \o Traces[tid].id \o "|ACCEPT"))
       /\ l' = 0 /\ UNCHANGED <<tid, trel, tpts, nf>>

Next == Step \/ End
=============================================================================
