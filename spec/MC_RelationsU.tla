--------------------------- MODULE MC_RelationsU ---------------------------
(* exports the object universe of MC_Relations for the replay harness *)
EXTENDS MC_Relations
ASSUME PrintT("UNIVERSE " \o ToJson(Universe))
=============================================================================
