---------------------------- MODULE MC_Relations ----------------------------
(***************************************************************************)
(* The relation-declaration state machine over a small universe of exact   *)
(* objects: every sequence of public calls (accepted or rejected) up to    *)
(* MaxCalls, with Assemble possible at any point.  Each behaviour is       *)
(* exported as JSON and replayed on real gearpy objects (spec -> code).    *)
(***************************************************************************)
EXTENDS Relations, Json

CONSTANTS MaxCalls, Objs            \* Objs: subset of DOMAIN Universe explored by this config
VARIABLES rel, pt, log
vars == <<rel, pt, log>>

T10 == "1/10"   \* tan(beta/2): beta = 11.42 deg
T20 == "1/5"    \*              beta = 22.62 deg
T25 == "1/4"    \*              beta = 28.07 deg
A20 == Rad("20")
A25 == Rad("25")
A30 == Rad("30")
O(kind, teeth, module, th, alpha, name) ==
   [kind |-> kind, teeth |-> teeth, module |-> module, th |-> th, alpha |-> alpha, name |-> name]
Universe == [
  M   |-> O("DCMotor", 0, Null, Null, Null, "M"),
  F   |-> O("Flywheel", 0, Null, Null, Null, "F"),
  S1  |-> O("SpurGear", 10, "1/1000", Null, Null, "S1"),
  S2  |-> O("SpurGear", 30, "1/1000", Null, Null, "S2"),
  S3  |-> O("SpurGear", 20, "1/500", Null, Null, "S2"),          \* other module; same NAME as S2 (duplicate)
  S4  |-> O("SpurGear", 15, Null, Null, Null, "S4"),             \* no module: mates with anything spur
  H1  |-> O("HelicalGear", 12, Null, T10, Null, "H1"),
  H2  |-> O("HelicalGear", 36, Null, T10, Null, "H2"),
  H3  |-> O("HelicalGear", 24, Null, T25, Null, "H3"),
  H0  |-> O("HelicalGear", 18, Null, "0", Null, "H0"),            \* helix angle exactly 0: still a helical gear (never mates with a spur)
  W   |-> O("WormGear", 2, Null, T10, A20, "W"),
  W2  |-> O("WormGear", 1, Null, T20, A20, "W2"),
  W3  |-> O("WormGear", 3, Null, "1/40", A20, "W3"),             \* flat helix (2.9 deg): self-locking already for f > 0.047
  W4  |-> O("WormGear", 2, Null, "2/5", A30, "W4"),              \* steep helix (43.6 deg, legal only at 30 deg): as a master its
                                                                  \* efficiency is NEGATIVE for f > cos(30)/tan(43.6) = 0.909
  Wh3 |-> O("WormWheel", 44, Null, "2/5", A30, "Wh3"),
  Wh  |-> O("WormWheel", 40, Null, T10, A20, "Wh"),
  Wh2 |-> O("WormWheel", 50, Null, T10, A25, "Wh2") ]

AllObjs == DOMAIN Universe
CoreObjs == {"M", "S1", "S2", "H1", "W", "Wh"}
Num(v) == [isnum |-> TRUE, v |-> v]
NotNum == [isnum |-> FALSE, v |-> "0"]
Etas  == {Num("-1/10"), Num("0"), Num("9/10"), Num("1"), Num("11/10"), NotNum}
Frics == {Num("-1/10"), Num("0"), Num("1/20"), Num("2/5"), Num("19/20"), Num("11/10"), NotNum}

Init == /\ rel = [x \in Objs |-> FreshRel]
        /\ pt = [t |-> "none"]
        /\ log = <<>>

Entry(call, m, s, arg, out, r2) ==
   [call |-> call, m |-> m, s |-> s, arg |-> arg, t |-> out.t, err |-> out.err,
    post |-> [pm |-> r2[m], ps |-> r2[s]]]

Declare(call, m, s, arg, outs) ==
   \E out \in outs :
      /\ rel' = out.rel
      /\ log' = Append(log, Entry(call, m, s, arg, out, out.rel))
      /\ UNCHANGED pt

DoGear  == \E m \in Objs, s \in Objs, e \in Etas  : Declare("gear", m, s, e, GearMating(Universe, rel, m, s, e))
DoWorm  == \E m \in Objs, s \in Objs, f \in Frics : Declare("worm", m, s, f, WormMating(Universe, rel, m, s, f))
DoJoint == \E m \in Objs, s \in Objs : Declare("joint", m, s, NotNum, FixedJoint(Universe, rel, m, s))
DoAssemble == \E x \in Objs :
   LET a == Assemble(Universe, rel, x, Cardinality(Objs) + 1) IN
   /\ a.t # "diverges"                                   \* a drives-cycle never returns in the code (O1): guarded off
   /\ pt' = IF a.t = "ok" THEN a ELSE pt
   /\ log' = Append(log, [call |-> "assemble", m |-> x, s |-> x, arg |-> NotNum, t |-> a.t, err |-> a.err,
                          post |-> [pm |-> rel[x], ps |-> rel[x]],
                          elements |-> IF a.t = "ok" THEN a.elements ELSE <<>>,
                          selfLocking |-> a.t = "ok" /\ a.selfLocking])
   /\ UNCHANGED rel

Next == Len(log) < MaxCalls /\ (DoGear \/ DoWorm \/ DoJoint \/ DoAssemble)
Spec == Init /\ [][Next]_vars

(* ---- properties ---- *)
Sane == RelSane(Universe, rel)                                                          \* C10
RejectKeeps == [][ (Len(log') > Len(log) /\ log'[Len(log')].t = "raise") => rel' = rel ]_vars   \* C10
\* C20: an assembled powertrain is the drives-chain from its motor at assembly time, each element once ...
AssembledIsChain == pt.t = "ok" =>
   /\ Universe[pt.elements[1]].kind = "DCMotor" /\ Len(pt.elements) >= 2
   /\ \A i \in 1..Len(pt.elements), j \in 1..Len(pt.elements) : i # j => pt.elements[i] # pt.elements[j]
   /\ Cardinality(NamesOf(Universe, pt.elements)) = Len(pt.elements)
\* ... and is never changed by later declarations
PtImmutable == [][ pt.t = "ok" => (pt' = pt \/ log'[Len(log')].call = "assemble") ]_vars
\* accepted matings link both elements mutually at the moment of the call
MutualAtCall == [][ (Len(log') > Len(log) /\ log'[Len(log')].t = "ok" /\ log'[Len(log')].call # "assemble") =>
                      LET e == log'[Len(log')] IN rel'[e.m].drives = e.s /\ rel'[e.s].drivenBy = e.m ]_vars

Emit == (Len(log) = MaxCalls) => PrintT("B " \o ToJson(log))
=============================================================================
