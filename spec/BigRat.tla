------------------------------- MODULE BigRat -------------------------------
(***************************************************************************)
(* Exact rational arithmetic for TLC.  A rational is a string "n/d", "n",  *)
(* or a decimal / scientific literal such as "0.1" or "-3.5e-7"; results   *)
(* are canonical (lowest terms, "n" for integers, "0" for zero), so `=' is *)
(* sound on values *produced* by these operators.  Every operator is       *)
(* implemented by the Java module override tlc2.module.BigRat (built by    *)
(* setup from java/tlc2/module/BigRat.java, java.math.BigInteger).  The    *)
(* bodies below only give TLC/SANY something to parse; spec/RatLaws.tla    *)
(* checks the override against a pure-TLA+ reference implementation.       *)
(***************************************************************************)
LOCAL INSTANCE Integers
RAdd(a, b)  == CHOOSE r : TRUE
RSub(a, b)  == CHOOSE r : TRUE
RMul(a, b)  == CHOOSE r : TRUE
RDiv(a, b)  == CHOOSE r : TRUE
RNeg(a)     == CHOOSE r : TRUE
RAbs(a)     == CHOOSE r : TRUE
RNorm(a)    == CHOOSE r : TRUE
RMax(a, b)  == CHOOSE r : TRUE
RMin(a, b)  == CHOOSE r : TRUE
RLe(a, b)   == CHOOSE r \in BOOLEAN : TRUE
RLt(a, b)   == CHOOSE r \in BOOLEAN : TRUE
REq(a, b)   == CHOOSE r \in BOOLEAN : TRUE
RCmp(a, b)  == CHOOSE r \in {-1, 0, 1} : TRUE
RSign(a)    == CHOOSE r \in {-1, 0, 1} : TRUE
RFloor(a)   == CHOOSE r : TRUE
RRound(a)   == CHOOSE r : TRUE
RPow(a, n)  == CHOOSE r : TRUE
RRoundDec(a, d) == CHOOSE r : TRUE
RExpNeg(a, d) == CHOOSE r : TRUE
RToInt(a)   == CHOOSE r : TRUE
RFromInt(a) == CHOOSE r : TRUE
RIsNum(a)   == CHOOSE r \in BOOLEAN : TRUE
RShow(a, k) == CHOOSE r : TRUE

RGe(a, b) == RLe(b, a)
RGt(a, b) == RLt(b, a)
RSq(a)    == RMul(a, a)
RInv(a)   == RDiv("1", a)
RHalf(a)  == RDiv(a, "2")
=============================================================================
