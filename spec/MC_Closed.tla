----------------------------- MODULE MC_Closed -----------------------------
(***************************************************************************)
(* Design-level check of C04 in exact arithmetic: the solver's scheme      *)
(* against the closed form, as a state machine.  One behaviour = one       *)
(* linear instance (chain, duty cycle, constant load, initial speed) and   *)
(* one step size h = k dt in {1/5, 1/10, 1/20}; the state carries the      *)
(* scheme at step dt AND at step dt/2 (two sub-steps per step), so every   *)
(* instant is checked against the bound and the halving ratio is checked   *)
(* at the common final time (horizon k t = 4).                             *)
(***************************************************************************)
EXTENDS Closed

El(kind, J, rtype, teeth, arg) == [kind |-> kind, J |-> J, rtype |-> rtype, teeth |-> teeth, arg |-> arg, th |-> "0", alpha |-> SNull]
Mot(J, Tmax, w0, i0, imax) == [kind |-> "DCMotor", J |-> J, rtype |-> "none", teeth |-> 0, arg |-> "1", th |-> "0", alpha |-> SNull,
                               Tmax |-> Tmax, w0 |-> w0, i0 |-> i0, imax |-> imax]
Chains == {
  << Mot("1", "2", "16", SNull, SNull), El("SpurGear", "2", "joint", 10, "1") >>,
  << Mot("1/1000", "1/100", "200", "1/10", "2"), El("SpurGear", "1/1000", "joint", 10, "1"), El("SpurGear", "1/100", "gear", 40, "9/10") >>,
  << Mot("1/1000", "1/100", "200", "0", "2"), El("Flywheel", "1/500", "joint", 0, "1"), El("SpurGear", "1/1000", "joint", 12, "1"),
     El("SpurGear", "1/100", "gear", 36, "1/2"), El("SpurGear", "1/50", "gear", 18, "3/4") >> }
Ds == {"1", "1/2", "-3/4"}
LoadFactors == {"0", "1/3", "3/2", "-1/2"}                       \* of the stall torque at the output: below / above stall, negative
SpeedFactors == {"0", "2", "-1"}                                 \* initial speed as a multiple of the regime speed
Hs == {"1/5", "1/10", "1/20"}
Usable(ch, D) == IF HasCurrent(MotorOf(ch)) THEN ~InDead(MotorOf(ch), D) ELSE TRUE

VARIABLES c, n, w1, th1, w2, th2
vars == <<c, n, w1, th1, w2, th2>>
\* c: the case [ch, lin, J, w0, h, dt, steps]
Init == \E ch \in Chains, D \in Ds, lf \in LoadFactors, sf \in SpeedFactors, h \in Hs :
          /\ Usable(ch, D)
          /\ LET L == RMul(lf, RMul(RMul(ch[1].Tmax, EffProdTo(ch, N(ch))), RatioProd(ch, 1)))
                 lin == Lin(ch, D, L)
                 w0 == RMul(sf, lin.winf) IN
             /\ c = [lin |-> lin, J |-> Jeq(ch), w0 |-> w0, h |-> h, dt |-> RDiv(h, lin.k), steps |-> RToInt(RDiv("4", h))]
             /\ n = 0 /\ w1 = w0 /\ th1 = "0" /\ w2 = w0 /\ th2 = "0"

Advance(w, th, dt) == LET wn == RAdd(w, RMul(RDiv(RSub(c.lin.A, RMul(c.lin.B, w)), c.J), dt)) IN [w |-> wn, th |-> RAdd(th, RMul(wn, dt))]
Step == /\ n < c.steps
        /\ LET a == Advance(w1, th1, c.dt)
               b1 == Advance(w2, th2, RHalf(c.dt))
               b2 == Advance(b1.w, b1.th, RHalf(c.dt)) IN
           w1' = a.w /\ th1' = a.th /\ w2' = b2.w /\ th2' = b2.th
        /\ n' = n + 1 /\ UNCHANGED c
Spec == Init /\ [][Step]_vars

T == RMul(RFromInt(n), c.dt)
\* C04: within C dt of the closed form at every instant, for both step sizes carried
BoundDt     == SpdBoundOK(c.lin, c.w0, c.dt, n, w1, "0") /\ PosBoundOK(c.lin, c.w0, c.dt, n, th1, "0")
BoundHalfDt == /\ RLe(RAbs(RSub(w2, WExact(c.lin, c.w0, T))), RMul(RMul("1/2", RMul(c.lin.k, RAbs(RSub(c.w0, c.lin.winf)))), RHalf(c.dt)))
               /\ RLe(RAbs(RSub(th2, ThExact(c.lin, c.w0, T))), RMul(RMul("3/2", RAbs(RSub(c.w0, c.lin.winf))), RHalf(c.dt)))
\* the error at the fixed final time roughly halves when dt is halved
Halving == n = c.steps =>
   /\ HalvingOK(RAbs(RSub(w1, WExact(c.lin, c.w0, T))), RAbs(RSub(w2, WExact(c.lin, c.w0, T))), "0")
   /\ HalvingOK(RAbs(RSub(th1, ThExact(c.lin, c.w0, T))), RAbs(RSub(th2, ThExact(c.lin, c.w0, T))), "0")
\* sanity of the exponential used
ASSUME RLe(RAbs(RSub(ExpNeg("1"), "0.36787944117144232159552377016146")), "1e-30")
ASSUME RLe(RAbs(RSub(ExpNeg("6"), "0.00247875217666635842302962023115")), "1e-16")
=============================================================================
