------------------------------ MODULE Quantity ------------------------------
(***************************************************************************)
(* The quantity heap as a state machine (design model explored by TLC in   *)
(* MC_Quantity); the outcome relations live in QuantityOps.tla and are     *)
(* shared with the trace specification Trace_Quantity.tla.                 *)
(***************************************************************************)
EXTENDS QuantityOps

(* ---- the state machine explored by MC_Quantity ---- *)
CONSTANTS MCKinds, MCVals, MCNums, MaxObjs, MaxOps
VARIABLES heap, nops, last
qvars == <<heap, nops, last>>

TwoUnits(k) == {SIUnit(k), CHOOSE u \in UnitNames(k) : u # SIUnit(k)}

QInit == heap = <<>> /\ nops = 0 /\ last = [op |-> "init"]

Construct(k, u, v) ==
  /\ Len(heap) < MaxObjs /\ nops = 0
  /\ LET out == CHOOSE o \in AllowedNew(k, u, v) : TRUE IN
     /\ heap' = IF out.t = "ret" THEN Append(heap, Obj(k, u, v)) ELSE heap
     /\ last' = [op |-> "new", kind |-> k, unit |-> u, val |-> v, out |-> out]
  /\ UNCHANGED nops

Alloc(h, k, u, si) == IF k = "Number" THEN h ELSE Append(h, Obj(k, u, FromSI(k, u, si)))   \* plain numbers are not heap objects

Bin(op, i, j) ==
  /\ nops < MaxOps /\ i \in 1..Len(heap) /\ j \in 1..Len(heap)
  /\ LET a == heap[i]  b == heap[j]  out == ApplyBin(op, a, b) IN
     /\ out \in AllowedBin(op, a, b)                       \* the design choice is an allowed outcome
     /\ heap' = IF out.t = "ret" THEN Alloc(heap, out.kind, ResultUnit(op, a, b, out.kind), out.si) ELSE heap
     /\ last' = [op |-> op, i |-> i, j |-> j, out |-> out]
  /\ nops' = nops + 1

BinNum(op, i, n, numLeft) ==
  /\ nops < MaxOps /\ i \in 1..Len(heap)
  /\ LET q == heap[i]  num == Obj("Number", "", n)
         a == IF numLeft THEN num ELSE q   b == IF numLeft THEN q ELSE num
         out == ApplyBin(op, a, b) IN
     /\ out \in AllowedBin(op, a, b)
     /\ heap' = IF out.t = "ret" THEN Alloc(heap, out.kind, ResultUnit(op, a, b, out.kind), out.si) ELSE heap
     /\ last' = [op |-> op, i |-> i, n |-> n, numLeft |-> numLeft, out |-> out]
  /\ nops' = nops + 1

Unary(name, i) ==
  /\ nops < MaxOps /\ i \in 1..Len(heap)
  /\ LET a == heap[i]
         out == CHOOSE o \in (IF name = "neg" THEN AllowedNeg(a) ELSE AllowedAbs(a)) : TRUE IN
     /\ heap' = IF out.t = "ret" THEN Alloc(heap, out.kind, a.unit, out.si) ELSE heap
     /\ last' = [op |-> name, i |-> i, out |-> out]
  /\ nops' = nops + 1

To(i, u, inplace) ==
  /\ nops < MaxOps /\ i \in 1..Len(heap)
  /\ LET a == heap[i]  out == CHOOSE o \in AllowedTo(a, u) : TRUE
         conv == Obj(a.kind, u, FromSI(a.kind, u, out.si)) IN
     /\ heap' = IF out.t # "ret" THEN heap
                ELSE IF inplace THEN [heap EXCEPT ![i] = conv] ELSE Append(heap, conv)
     /\ last' = [op |-> IF inplace THEN "to_inplace" ELSE "to", i |-> i, unit |-> u, out |-> out]
  /\ nops' = nops + 1

QNext ==
  \/ \E k \in MCKinds, v \in MCVals : \E u \in TwoUnits(k) : Construct(k, u, v)
  \/ \E op \in {"+", "-", "*", "/"} : \E i \in 1..Len(heap), j \in 1..Len(heap) : Bin(op, i, j)
  \/ \E op \in {"*", "/"} : \E i \in 1..Len(heap), n \in MCNums, nl \in BOOLEAN : BinNum(op, i, n, nl)
  \/ \E nm \in {"neg", "abs"} : \E i \in 1..Len(heap) : Unary(nm, i)
  \/ \E i \in 1..Len(heap), inpl \in BOOLEAN : \E u \in TwoUnits(heap[i].kind) : To(i, u, inpl)

QSpec == QInit /\ [][QNext]_qvars

(* ---- properties of the design ---- *)
HeapValid == AllValid(heap)                                         \* C19
\* a raising action leaves the heap unchanged; a returning one changes at most one slot
RaiseKeepsHeap == [][ (last'.op # "init" /\ last'.out.t = "raise") => heap' = heap ]_qvars
\* SI magnitude of every allocated result is the exact operation on the operands (C06)
ResultExact == (last.op \in {"+", "-", "*", "/"} /\ last.out.t = "ret" /\ last.out.kind # "Number") =>
                  SIof(heap[Len(heap)]) = last.out.si
\* inverse laws on the design: (a+b)-b = a and a-b = -(b-a)   (whenever both sides are defined)
InverseLaws == \A i \in 1..Len(heap), j \in 1..Len(heap) :
   LET a == heap[i]  b == heap[j]  s == ApplyBin("+", a, b) IN
   /\ (s.t = "ret" =>
         LET sb == ApplyBin("-", Obj(s.kind, ResultUnit("+", a, b, s.kind), FromSI(s.kind, ResultUnit("+", a, b, s.kind), s.si)), b)
         IN sb.t = "ret" => sb.si = SIof(a))
   /\ LET d1 == ApplyBin("-", a, b)  d2 == ApplyBin("-", b, a) IN
      (d1.t = "ret" /\ d2.t = "ret") => d1.si = RNeg(d2.si)
=============================================================================
