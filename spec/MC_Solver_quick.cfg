SPECIFICATION Spec
CONSTANTS
  Instances <- TinyInstances
  MaxInstants = 4
  MaxEpochs = 2
  MaxSolvers = 2
  RunLengths <- RunLens
  UserPwms <- NoUser
  UserStates <- NoUser
INVARIANT C01_Coupled
INVARIANT C02_Torques
INVARIANT C03_Motion
INVARIANT C11_Grid
INVARIANT C13_SignSafe
INVARIANT C13_NoClamp
INVARIANT C13_HeldMeansStill
INVARIANT C14_Range
INVARIANT C16_FirstHit
INVARIANT C17_Rect
INVARIANT C12_SplitAndRerun
PROPERTY RefinesLockAbs
CHECK_DEADLOCK FALSE
