#!/bin/sh
# usage: tlcrun.sh <module-without-.tla> [tlc args...]   (cwd = /verif/spec)
D=$(dirname "$0")
M=$1; shift
exec java -Xss64m -XX:+UseParallelGC -XX:ParallelGCThreads=4 -cp "$D/build/classes:/opt/veriftools/tla/tla2tools.jar:/opt/veriftools/tla/CommunityModules-deps.jar" tlc2.TLC -metadir "/tmp/verif-tlc/$M.$$" -noGenerateSpecTE "$@" "$M"
